"""C10 — merge_bins conserves content and bin boundaries (1-D; ND part in c10nd)."""
from __future__ import annotations

import copy
from fractions import Fraction

from .. import gen1
from ..core import rs
from .base1 import Hist1Prop


def rand_hist_op(rng, pairs, out=0, keep=None):
    b = gen1.binning_json(pairs, rng=rng, form=rng.choice(["pairs", "static_obj"]))
    nb = len(pairs)
    dt = rng.choice(["int64", "int64", "float64", "int32", "float32"])
    isint = dt.startswith("int")
    f = [rng.choice([0, 0, 1, 2, 3, 5, 8]) if isint else rng.choice([0, 0.5, 1.25, 2, 4.75]) for _ in range(nb)]
    e = None if rng.random() < 0.4 else [rng.randint(0, 9) if isint else rng.randint(0, 40) / 4 for _ in range(nb)]
    gapped = not gen1.is_consecutive_exact(pairs)
    miss = [rng.randint(0, 5) for _ in range(3)]
    return {"op": "of_arrays", "out": out, "binning": b, "freq": [rs(x) for x in f],
            "err2": None if e is None else [rs(x) for x in e], "under": rs(miss[0]), "over": rs(miss[1]),
            "inner": rs(miss[2]), "dtype": dt, "keep": (rng.random() < 0.85) if keep is None else keep}


# ------------------------------------------------------------------ numeric carriers of `amount` / `min_frequency`
# zero amounts in numpy integer types: `i // np.int64(0)` is 0 (with a warning), so the unchanged library ACCEPTS
# merge_bins(np.int64(0)) / np.uint8(0) / np.array(0) and merges all bins into one, while merge_bins(0) is refused
# (ZeroDivisionError).  The oracle wants a zero amount refused whatever carries it (as the Lean model, theorem
# C10_refuse_amount); the sub-class stays out of the generator until that is triaged.
ENABLE_NUMPY_ZERO_AMOUNT = False

NP_INTS = ["int8", "uint8", "int16", "uint16", "int32", "uint32", "int64", "uint64"]
MUST_ACCEPT = ["pyint"] + NP_INTS                     # integers: an amount >= 1 in these must be accepted
MAY_ACCEPT = ["pyfloat", "float64", "float32", "float16", "longdouble", "arr0:int64", "arr0:uint8", "arr0:float64",
              "Fraction", "Decimal"]                  # whole numbers in other clothes: acceptance is not pinned
FRACTIONAL = ["pyfloat", "float64", "float32", "float16", "longdouble", "arr0:float64", "arr0:float32", "f32div",
              "Fraction", "Decimal"]                  # carriers of non-integral amounts: always to be refused
FRAC_VALUES = ["5/2", "3/2", "7/2", "1/2", "9/4", "9/2", "1025/512", "201/2", "-5/2"]     # all exact in float16
SIGNED = ["pyint", "int8", "int16", "int32", "int64", "pyfloat", "float32", "Fraction"]
THRESHOLD_KINDS = ["pyint", "pyfloat"] + NP_INTS + ["float64", "float32", "float16", "longdouble", "arr0:float64",
                                                    "arr0:int64", "Fraction", "Decimal"]


def merge_index(case):
    """position of the merge under test: the last op, unless the case says otherwise ("m": ops may follow the merge)"""
    return case.get("m", len(case["ops"]) - 1)


def amount_of(op):
    """(value as Fraction, carrier name) of a merge op's amount, or None"""
    if op.get("amount") is None:
        return None
    return Fraction(op["amount"]), op.get("ak") or "pyint"


def amount_class(op):
    """what the property says about the amount: "fractional" / "zero" (to be refused), "negative" (outside the
    quantifier: nothing pinned but all-or-nothing), "must" (an integer >= 1: accepted unless a run spans a gap),
    "may" (a whole number >= 1 in a non-integer type: either refused or merged by exactly that amount)"""
    v, kind = amount_of(op)
    if v.denominator != 1:
        return "fractional"
    if v == 0:
        return "zero"
    if v < 0:
        return "negative"
    return "must" if kind in MUST_ACCEPT else "may"


def amount_text(op):
    v, kind = amount_of(op)
    return f"{v} carried as {kind}"


def rand_amount(rng, nb, op):
    """puts an amount in some numeric carrier into the merge op; returns the tags"""
    r = rng.random()
    if r < 0.42:
        v = rng.choice(FRAC_VALUES)
        kind = rng.choice(FRACTIONAL)
        if kind == "f32div" and Fraction(v) < 0:
            kind = "float32"
        cls = "fractional"
    elif r < 0.47:
        v, kind, cls = "0", "pyint", "zero"
        if ENABLE_NUMPY_ZERO_AMOUNT and rng.random() < 0.6:
            kind = rng.choice(NP_INTS + ["arr0:int64"])
    elif r < 0.53:
        v, kind, cls = str(-rng.choice([1, 2, max(1, nb - 1), nb, nb + 3])), rng.choice(SIGNED), "negative"
    else:
        a = rng.randint(1, nb + 1)
        if rng.random() < 0.12:
            a = rng.choice([100, 127])
        cls = "must" if rng.random() < 0.6 else "may"
        kind = rng.choice(MUST_ACCEPT if cls == "must" else MAY_ACCEPT)
        if rng.random() < 0.05 and kind in ("pyint", "int64", "uint64", "float64", "pyfloat", "Fraction", "arr0:int64"):
            a = 2**40
        v = str(a)
    op["amount"], op["ak"] = v, kind
    return ["amount:" + cls, "carrier:" + kind]


def rand_threshold(rng, op, pool=("1", "2", "5/2", "3", "7/2", "5", "8", "12")):
    op["min_freq"] = rng.choice(list(pool))
    kind = rng.choice(THRESHOLD_KINDS)
    if Fraction(op["min_freq"]).denominator != 1 and (kind == "pyint" or kind in NP_INTS or kind == "arr0:int64"):
        kind = rng.choice(["float32", "float16", "Fraction", "Decimal", "longdouble"])
    op["mk"] = kind
    return ["threshold_carrier:" + kind]


def threshold_pinned(op):
    """thresholds as python / numpy numbers must be accepted; other carriers (long double, 0-d arrays, Fraction, Decimal) may
    be refused (all-or-nothing) -- when they are accepted the result is checked all the same"""
    return op.get("mk") in (None, "pyint", "pyfloat", "float64", "float32", "float16") or op.get("mk") in NP_INTS


def model_merge_op(op, ret):
    """the merge op as the Lean driver can read it (amount: a natural number), or None when the model has no say:
    non-integral amounts are outside the model's domain -- its statement for them is the driver's `invalid` op (refused,
    nothing touched); negative amounts are not modelled; whole numbers in non-integer types only when physt took them"""
    op = copy.deepcopy(op)
    op.pop("mk", None)
    if op.get("amount") is None or "ak" not in op:
        return op
    cls = amount_class(op)
    op.pop("ak")
    if cls == "fractional":
        return {"op": "invalid", "what": "merge_frac", "h": op["h"]}
    if cls == "negative" or (cls == "may" and ret != "ok"):
        return None
    op["amount"] = int(Fraction(op["amount"]))
    return op


# ------------------------------------------------------------------ contents / squared errors beyond 2**53
BIG_INTS = [2**53 + 1, 2**53 + 3, 2**53 - 1, 2**54 + 1, 2**55 + 7, 2**56 - 1, 2**57 + 5, 2**58 + 9, 2**59 + 1, 2**60 + 3,
            10**16 + 1, 3 * 10**17 + 7, 9007199254740993 * 3]
INT64_MAX = 2**63 - 1


def big_int_values(rng, n, cap=INT64_MAX):
    """n non-negative integers, most of them odd and beyond 2**53, adding up to at most `cap` (every run sum and the
    total stay inside int64, none of them is a double)"""
    vals = [rng.choice(BIG_INTS) if rng.random() < 0.6 else rng.choice([0, 1, 2, 3, 7, 400, 2**31 + 1, 2**52 + 1])
            for _ in range(n)]
    while sum(vals) > cap:
        k = max(range(n), key=lambda i: vals[i])
        vals[k] = vals[k] // 16 + 1
    return vals


def big_float_values(rng, n):
    """doubles c * 2**k whose integer coefficients c add up to less than 2**53: every partial sum in any order is exactly
    representable, though the numbers are far beyond 2**53 (or have 53 significant bits)"""
    k = rng.choice([0, 1, 30, 60, 200, -30])
    budget = 2**53 - 1
    coef = []
    for _ in range(n):
        c = rng.choice([0, 1, 3, 2**20 + 1, 2**40 + 5, 2**51 + 1, 2**52 + 1, rng.randint(0, 2**48)])
        c = min(c, budget)
        budget -= c
        coef.append(c)
    rng.shuffle(coef)
    return [Fraction(c) * Fraction(2) ** k for c in coef]


def big_hist_ops(rng, pairs):
    """ops building a 1-D histogram with large contents in register `reg`; returns (ops, reg, tags, freq list)"""
    nb = len(pairs)
    b = gen1.binning_json(pairs, rng=rng, form=rng.choice(["pairs", "static_obj"]))
    miss = [rng.randint(0, 5) for _ in range(3)]
    init = {"op": "of_arrays", "out": 0, "binning": b, "under": rs(miss[0]), "over": rs(miss[1]), "inner": rs(miss[2]),
            "keep": rng.random() < 0.85}
    if rng.random() < 0.25:
        init["klass"] = rng.choice(["RadialHistogram", "AzimuthalHistogram"])
    how = rng.choice(["direct", "direct", "scaled", "float"])
    if how == "direct":
        f = big_int_values(rng, nb)
        r = rng.random()
        e = None if r < 0.3 else (big_int_values(rng, nb) if r < 0.8 else [rng.randint(0, 9) for _ in range(nb)])
        if r >= 0.8 and rng.random() < 0.5:
            f, e = e, f                       # small contents, huge squared errors
        init.update(freq=[str(x) for x in f], err2=None if e is None else [str(x) for x in e], dtype="int64")
        return [init], 0, ["big:int64_direct"], f
    if how == "scaled":
        # a counting histogram times a large python integer: contents c*k, squared errors c*k*k
        k = rng.choice([10_000_001, 10_000_001, 94_906_267, 300_000_007, 2**27 + 1])
        room = INT64_MAX // (k * k)
        c = [min(rng.choice([0, 1, 3, 17, 400, 163, 1000, 12345]), max(0, room // nb)) for _ in range(nb)]
        init.update(freq=[str(x) for x in c], err2=None, dtype="int64")
        mul = {"op": "mul", "h": 0, "c": str(k), "k": "pyint", "out": 1, "reflected": rng.random() < 0.3}
        if rng.random() < 0.3:
            mul = {"op": "imul", "h": 0, "c": str(k), "k": "pyint"}
            return [init, mul], 0, ["big:int64_scaled"], [x * k for x in c]
        return [init, mul], 1, ["big:int64_scaled"], [x * k for x in c]
    f = big_float_values(rng, nb)
    e = None if rng.random() < 0.3 else big_float_values(rng, nb)
    init.update(freq=[rs(x) for x in f], err2=None if e is None else [rs(x) for x in e], dtype="float64")
    return [init], 0, ["big:float64_exact"], f


def gen_big1(rng):
    pairs, t = gen1.rising_bins(rng, allow_gaps=rng.random() < 0.2)
    while rng.random() < 0.4 and len(pairs) < 12:
        l = pairs[-1][1]
        pairs.append([l, l + rng.choice([0.5, 1.0, 0.25])])
    nb = len(pairs)
    ops, reg, tags, f = big_hist_ops(rng, pairs)
    op = {"op": "merge", "h": reg, "inplace": rng.random() < 0.4, "out": reg + 1, "axis0": rng.random() < 0.5}
    isint = ops[0]["dtype"] == "int64"
    if rng.random() < 0.65:
        op["amount"] = rng.randint(1 if rng.random() < 0.1 else 2, nb + 1)
        if rng.random() < 0.3:
            op["amount"], op["ak"] = str(op["amount"]), rng.choice(NP_INTS)
        mode = "amount"
    else:
        # thresholds among the contents and their sums: python integers for integer contents (compared exactly), doubles
        # (exact sums of the grid) for float contents
        fr = [Fraction(x) for x in f]
        pool = [x for x in fr] + [fr[i] + fr[i + 1] for i in range(nb - 1)] + [sum(fr), Fraction(1), Fraction(2**53)]
        op["min_freq"] = rs(rng.choice(pool))
        op["mk"] = "pyint" if isint else "pyfloat"
        mode = "minfreq"
    tags = tags + [x for x in ("gapped", "tiny_gap") if t[x]] + ["stream:big1", "mode:" + mode]
    if ops[0].get("klass"):
        tags.append("class:" + ops[0]["klass"])
    return {"kind": "hist1", "ops": ops + [op], "tags": tags}


def gen_carrier1(rng):
    pairs, t = gen1.rising_bins(rng, allow_gaps=rng.random() < 0.25)
    while rng.random() < 0.3 and len(pairs) < 12:
        l = pairs[-1][1]
        pairs.append([l, l + rng.choice([0.5, 1.0, 0.25])])
    init = rand_hist_op(rng, pairs)
    op = {"op": "merge", "h": 0, "inplace": rng.random() < 0.5, "out": 1, "axis0": rng.random() < 0.5}
    if rng.random() < 0.8:
        tags = rand_amount(rng, len(pairs), op) + ["mode:amount"]
    else:
        tags = rand_threshold(rng, op) + ["mode:minfreq"]
    return {"kind": "hist1", "ops": [init, op], "tags": [x for x in ("gapped", "tiny_gap") if t[x]] + tags + ["stream:carrier1"]}


# ------------------------------------------------------------------ every binning KIND and STATE under merge_bins
# The older streams give merge_bins histograms over explicit pairs / static objects.  Here the axis binning is whatever the
# facade makes of a named method (h1(data, "fixed_width", bin_width=w, adaptive=True), "human" / "pretty", "integer",
# "exponential", "quantile", an integer bin count -> NumpyBinning, an edge array) or a binning object (FixedWidthBinning with a
# shift, StaticBinning with gaps, NumpyBinning), in the states a histogram can be in before the merge (adaptive from the
# constructor, switched to adaptive afterwards, grown by fills outside its range, started without bins and filled, frozen
# again), in 1-D and on each axis of an N-d histogram.  The property pins the merged EDGES exactly -- the run's first left
# edge to its last right edge, the shorter last run keeps its true right edge -- which the older clauses already state on the
# observed bins of the source; in addition the merged histogram must read the same through every representation of its bins
# and, when filled outside its range afterwards, keep the merged bins and their contents.
KINDS_SHARE = 0.16            # share of the generated cases (the older streams keep their case counts: N_QUICK was raised)
FIXED_WIDTHS = [1.0, 0.5, 0.25, 2.0, 2.5, 0.1, 0.3]
EXP_VALUES = [0.5, 0.75, 1.0, 1.5, 2.0, 3.0, 4.0, 6.0, 8.0, 12.0, 16.0, 24.0, 32.0, 50.0, 100.0, 128.0]


def _np():
    import numpy as np
    return np


def _axis_args(spec):
    """(bins argument, keyword arguments) the facade gets for one axis"""
    from .. import impl1
    np = _np()
    k = spec["k"]
    if k == "obj":
        return impl1.mk_binning(spec["binning"]), {}
    if k == "edges":
        return np.array([impl1.fl(x) for x in spec["edges"]]), {}
    if k == "count":
        return int(spec["n"]), {}
    kw = {}
    if spec.get("bin_width") is not None:
        kw["bin_width"] = impl1.fl(spec["bin_width"])
    if spec.get("bin_count") is not None:
        kw["bin_count"] = int(spec["bin_count"])
    if spec.get("q") is not None:
        kw["q"] = tuple(impl1.fl(x) for x in spec["q"])
    if spec.get("adaptive"):
        kw["adaptive"] = True
    return k, kw


def _make(op):
    """the histogram of a "make" op: the facade called as a user would (named methods with their arguments; for N-d the
    arguments as per-axis lists)"""
    from .. import impl1
    import physt
    np = _np()
    specs = op["specs"]
    w = op.get("weights")
    if w is not None:
        w = np.array([impl1.fl(x) for x in w], dtype=np.dtype(op.get("wkind") or "float64"))
    if op["dim"] == 1:
        data = np.array([impl1.fl(x) for x in op["data"]], dtype=float)
        bins, kw = _axis_args(specs[0])
        return physt.h1(data, bins, weights=w, **kw)
    d = op["dim"]
    data = np.array([[impl1.fl(x) for x in r] for r in op["data"]], dtype=float).reshape(-1, d)
    args = [_axis_args(sp) for sp in specs]
    keys = sorted({k for _, kw in args for k in kw})
    kwargs = {k: [kw.get(k) for _, kw in args] for k in keys}
    if op.get("names") is not None:
        kwargs["axis_names"] = list(op["names"])
    bins = [a for a, _ in args]
    if op.get("entry") == "h2" and d == 2:
        return physt.h2(data[:, 0], data[:, 1], bins, weights=w, **kwargs)
    return physt.h(data, bins, weights=w, **kwargs)


def _reprs(h, nd):
    """every way the histogram reports its bins (canonical rational strings; None where physt gives nothing)"""
    from ..core import nrs
    np = _np()

    def lst(f):
        try:
            return [nrs(x) for x in np.asarray(f()).ravel()]
        except Exception:
            return None

    def pairs(f):
        try:
            return [[nrs(l), nrs(r)] for l, r in np.asarray(f()).reshape(-1, 2)]
        except Exception:
            return None

    def one(f):
        try:
            return nrs(f())
        except Exception:
            return None

    if not nd:
        b = h.binning
        return [{"numpy_bins": lst(lambda: h.numpy_bins), "edges": lst(lambda: h.edges),
                 "binning_numpy_bins": lst(lambda: b.numpy_bins), "left": lst(lambda: h.bin_left_edges),
                 "right": lst(lambda: h.bin_right_edges), "min_edge": one(lambda: h.min_edge), "max_edge": one(lambda: h.max_edge),
                 "first_edge": one(lambda: b.first_edge), "last_edge": one(lambda: b.last_edge),
                 "binning_bins": pairs(lambda: b.bins), "bin_count": int(b.bin_count), "h_bin_count": int(h.bin_count),
                 "shape": [int(x) for x in h.shape]}]
    out = []
    for ax, b in enumerate(h.binnings):
        out.append({"numpy_bins": lst(lambda: h.numpy_bins[ax]), "edges": lst(lambda: h.get_bin_edges(ax)),
                    "binning_numpy_bins": lst(lambda: b.numpy_bins), "left": lst(lambda: h.get_bin_left_edges(ax)),
                    "right": lst(lambda: h.get_bin_right_edges(ax)), "first_edge": one(lambda: b.first_edge),
                    "last_edge": one(lambda: b.last_edge), "binning_bins": pairs(lambda: b.bins),
                    "bin_count": int(b.bin_count), "shape": [int(x) for x in h.shape]})
    return out


def _kinds_snap(h, nd):
    from .. import impl1, implnd
    if h is None:
        return None
    snap = implnd.snapn(h) if nd else impl1.snap1(h)
    snap["_repr"] = _reprs(h, nd)
    if nd:
        snap["_binnings"] = [impl1.binning_meta(b) for b in h.binnings]
    return snap


def _kinds_step(s, op, log, nd):
    from .. import impl1, implnd
    if op["op"] != "make":
        return (implnd.step if nd else impl1.step)(s, op, log)
    try:
        s.set(op["out"], _make(op))
        return "ok"
    except KeyError:
        raise
    except Exception as e:          # a refused construction: not what this property is about (the case then checks nothing)
        log.append(f"make: {type(e).__name__}: {e}"[:200])
        return "REFUSED"


def kinds_run(case):
    """the history on the real library: "make" here, every other op by the op language of impl1 / implnd; a second run
    that reads nothing between the operations (see base1.Hist1Prop.run_impl)"""
    from .. import impl1
    from ..sharing import sharing
    nd = case["kind"] == "histn"
    s, outs, log = impl1.Store(), [], []
    for op in case["ops"]:
        ret = _kinds_step(s, op, log, nd)
        outs.append({"ret": ret, "regs": [_kinds_snap(h, nd) for h in s.regs], "_sharing": sharing(s.regs)})
    s2, log2, ret = impl1.Store(), [], None
    for op in case["ops"]:
        ret = _kinds_step(s2, op, log2, nd)
    final = {"ret": ret, "regs": [_kinds_snap(h, nd) for h in s2.regs], "_sharing": sharing(s2.regs)}
    return {"outs": outs, "log": log, "unobserved_outs": outs[:-1] + [final]}


def _binning_of_snapshot(meta, bins):
    """the binning the model is given: the parameters of a fixed-width binning as physt reports them, else the pairs"""
    if meta.get("t") == "fixed" and meta.get("count", 0) > 0:
        return {"t": "fixed", "w": meta["w"], "shift": meta["shift"], "tmin": meta["tmin"], "count": meta["count"],
                "align": True, "adaptive": meta["adaptive"], "ire": meta["ire"]}
    return {"t": "static", "bins": bins, "ire": meta.get("ire", True)}


def kinds_model_case(case, io):
    """The model is given the histogram as observed just before the merge (however it came about: named methods, growth
    and set_adaptive are the business of other properties) and runs the merge and what follows it."""
    m = merge_index(case)
    outs, ops = io["outs"], case["ops"]
    if any(o["ret"] == "REFUSED" for o in outs[:m]) or outs[m - 1]["regs"][0] is None:
        return None
    src = outs[m - 1]["regs"][0]
    if any(x is None for x in src["freq"] + src["err2"]):
        return None
    mop = model_merge_op(ops[m], outs[m]["ret"]) if ("ak" in ops[m] or "mk" in ops[m]) else copy.deepcopy(ops[m])
    if mop is None:
        return None
    if case["kind"] == "histn":
        init = {"op": "of_arrays", "out": 0, "axes": [_binning_of_snapshot(b, p) for b, p in zip(src["_binnings"], src["bins"])],
                "freq": src["freq"], "err2": src["err2"], "missed": src["missed"], "dtype": src["dtype"], "names": src["names"],
                "keep": src["keep"]}
    else:
        init = {"op": "of_arrays", "out": 0, "binning": _binning_of_snapshot(src["binning"], src["bins"]), "freq": src["freq"],
                "err2": src["err2"], "under": src["under"], "over": src["over"], "inner": src["inner"], "dtype": src["dtype"],
                "keep": src["keep"]}
    return {"kind": case["kind"], "ops": [init, mop] + copy.deepcopy(ops[m + 1:])}


# set_adaptive(True) is accepted for a FixedWidthBinning that includes its right edge -- a combination the constructor
# refuses ("Adaptivity does not work together with right-edge inclusion") -- and every later copy() of the histogram, hence
# every merge_bins() without inplace, then fails with that message.  Whether such a histogram is a valid input of merge_bins
# is not something the property says; the combination stays out of the generator.
ENABLE_ADAPTIVE_WITH_RIGHT_EDGE = False


# ---- generation
def _grid_column(rng, n, w, t0, nb):
    """n values on the grid of width w: cells t0 .. t0+nb-1, the first and the last cell occupied"""
    ks = [0, nb - 1] + [rng.randrange(nb) for _ in range(max(0, n - 2))]
    rng.shuffle(ks)
    return [(t0 + k + rng.choice([0.0, 0.25, 0.5, 0.75])) * w for k in ks[:max(n, 2)]]


def kinds_axis(rng, n, kind=None):
    """one axis of the stream: {"spec", "col" (n doubles), "nb" (expected bin count, None = not predicted), "w" (grid width
    or None), "fixed" (a FixedWidthBinning results), "adaptive", "tag"}"""
    kind = kind or rng.choice(["fixed_width"] * 6 + ["human", "pretty", "integer", "integer", "exponential", "quantile", "numpy",
                                                     "numpy", "edges", "static_gaps", "static_gaps", "fixed_obj", "fixed_obj"])
    nb = rng.choice([1, 2, 3, 4, 5, 5, 6, 7, 7, 8, 9, 10, 11, 13])
    t0 = rng.randint(-6, 6)
    ax = {"w": None, "fixed": False, "adaptive": False, "tag": kind, "nb": None}
    if kind == "fixed_width":
        w = rng.choice(FIXED_WIDTHS)
        ax.update(spec={"k": "fixed_width", "bin_width": rs(w)}, col=_grid_column(rng, n, w, t0, nb), nb=nb, w=w, fixed=True)
    elif kind in ("human", "pretty"):
        w = rng.choice(FIXED_WIDTHS)
        spec = {"k": kind}
        if rng.random() < 0.6:
            spec["bin_count"] = rng.randint(1, 12)
        ax.update(spec=spec, col=_grid_column(rng, n, w, t0, nb), fixed=True)
    elif kind == "integer":
        ax.update(spec={"k": "integer"}, col=[float(v // 1) for v in _grid_column(rng, n, 1.0, t0, nb)], nb=nb, w=1.0, fixed=True)
    elif kind == "exponential":
        ax.update(spec={"k": "exponential", "bin_count": nb}, col=[rng.choice(EXP_VALUES) for _ in range(n)], nb=nb)
        if len(set(ax["col"])) < 2:
            ax["col"][0], ax["col"][-1] = 0.5, 128.0
    elif kind == "quantile":
        # distinct values: quantiles of tied data may coincide, and physt refuses bins of no width
        col = rng.sample([t0 + i / 4 for i in range(4 * n + 8)], n)
        nb = min(nb, max(1, n - 1), 8)
        spec = {"k": "quantile", "bin_count": nb}
        if rng.random() < 0.3:
            qs = sorted(rng.sample([i / 16 for i in range(1, 16)], nb - 1)) if nb > 1 else []
            spec = {"k": "quantile", "q": [rs(x) for x in [0.0] + qs + [1.0]]}
        ax.update(spec=spec, col=col, nb=nb)
    elif kind == "numpy":
        col = _grid_column(rng, n, rng.choice([1.0, 0.5, 0.25]), t0, rng.randint(2, 9))
        ax.update(spec={"k": "count", "n": nb} if rng.random() < 0.6 else {"k": "numpy", "bin_count": nb}, col=col, nb=nb)
    elif kind == "edges":
        e = gen1.edges_pool(rng)
        pairs = [[e[i], e[i + 1]] for i in range(len(e) - 1)]
        ax.update(spec={"k": "edges", "edges": [rs(x) for x in e]}, col=[v for v in gen1.values_for(rng, pairs, n, nan_share=0)],
                  nb=len(pairs))
    elif kind == "static_gaps":
        pairs, t = gen1.rising_bins(rng, allow_gaps=True)
        while rng.random() < 0.4 and len(pairs) < 12:
            l = pairs[-1][1] + rng.choice([0.0, 0.0, 0.5])
            pairs.append([l, l + rng.choice([0.5, 1.0, 0.25])])
        form = rng.choice(["static_obj", "static_obj", "derived_obj", "numpy_obj"])
        ax.update(spec={"k": "obj", "binning": gen1.binning_json(pairs, ire=rng.random() < 0.7, form=form)},
                  col=gen1.values_for(rng, pairs, n, nan_share=0), nb=len(pairs))
        ax["tag"] = "static_gaps" if not gen1.is_consecutive_exact(pairs) else "static_obj"
    else:       # a FixedWidthBinning object: shifted grids, adaptive or not, with or without the right edge
        w = rng.choice(FIXED_WIDTHS)
        shift = rng.choice([0.0, 0.0, 0.5 * w, 0.25 * w])
        adaptive = rng.random() < 0.6
        ire = (not adaptive) and rng.random() < 0.4
        ax.update(spec={"k": "obj", "binning": gen1.fixed_json(w, t0, nb, shift, adaptive=adaptive, ire=ire)},
                  col=[v + shift for v in _grid_column(rng, n, w, t0, nb)], nb=nb, w=w, fixed=True, adaptive=adaptive, ire=ire)
    return ax


def _amount_for(rng, nb):
    """an amount for `nb` bins and its class: most often one that does not divide the bin count (a shorter last run)"""
    nb = nb or rng.randint(3, 9)
    r = rng.random()
    nondiv = [a for a in range(2, nb) if nb % a]
    div = [a for a in range(2, nb) if nb % a == 0]
    if r < 0.5 and nondiv:
        return rng.choice(nondiv)
    if r < 0.62 and div:
        return rng.choice(div)
    if r < 0.72:
        return 1
    if r < 0.84:
        return nb
    if r < 0.94:
        return nb + rng.randint(1, 3)
    return rng.randint(1, nb + 1)


def _states(rng, axes, nd, weights_int):
    """ops between the construction and the merge that change the STATE of the binning: set_adaptive, growth by fills
    outside the range, freezing again; updates the expected bin counts"""
    ops, tags = [], []
    fixed = [i for i, a in enumerate(axes) if a["fixed"]]
    late = [i for i in fixed if not axes[i]["adaptive"] and rng.random() < 0.35
            and (ENABLE_ADAPTIVE_WITH_RIGHT_EDGE or not axes[i].get("ire"))]
    if late and len(late) == len(axes) and (not nd or rng.random() < 0.5):
        ops.append({"op": "set_adaptive", "h": 0, "value": True})
    else:
        late = late if nd else []
        ops += [{"op": "set_adaptive", "h": 0, "axis": i, "value": True} for i in late]
    for i in late:
        axes[i]["adaptive"] = True
    if late:
        tags.append("state:set_adaptive")
    grow = [i for i, a in enumerate(axes) if a["adaptive"] and a["w"] and rng.random() < 0.5]
    for _ in range(rng.randint(1, 3) if grow else 0):
        v = []
        for i, a in enumerate(axes):
            x = rng.choice(a["col"])
            if i in grow and rng.random() < 0.8:
                lo, hi, w = min(a["col"]), max(a["col"]), a["w"]
                g = rng.randint(1, 3) + rng.choice([0.0, 0.25, 0.5])
                x = hi + g * w if rng.random() < 0.6 else lo - g * w
                a["col"] = a["col"] + [x]
                a["nb"] = None          # (the grown count is read from the histogram when the tags are made)
            v.append(x)
        wt = rng.choice([1, 1, 2, 3]) if weights_int else rng.choice([1, 1, 2])
        ops.append({"op": "fill", "h": 0, "v": [rs(x) for x in v] if nd else rs(v[0]), "w": str(wt), "wk": "pyint",
                    "default_w": wt == 1 and rng.random() < 0.5})
    if grow:
        tags.append("state:grown")
    if any(a["adaptive"] for a in axes) and rng.random() < 0.12:
        frozen = [i for i, a in enumerate(axes) if a["adaptive"]]
        ops += [{"op": "set_adaptive", "h": 0, "axis": i, "value": False} for i in frozen] if nd else \
            [{"op": "set_adaptive", "h": 0, "value": False}]
        for i in frozen:
            axes[i]["adaptive"] = False
        tags.append("state:frozen")
    return ops, tags


def _expected_nb(a):
    """bin count expected on an axis (None when it is not predicted: grown / pretty widths)"""
    if a["nb"] is not None:
        return a["nb"]
    if a["w"] and a["fixed"]:
        return int((max(a["col"]) - min(a["col"])) / a["w"]) + 1
    return None


def gen_kinds(rng, nd=None):
    nd = (rng.random() < 0.45) if nd is None else nd
    d = rng.choice([2, 2, 3]) if nd else 1
    n = rng.choice([2, 4, 6, 9, 14, 20])
    started_empty = (not nd) and rng.random() < 0.1
    if started_empty:
        # no bins at first: h1(None, "fixed_width", bin_width=w, adaptive=True), every bin comes from a fill
        w = rng.choice(FIXED_WIDTHS)
        nb0, t0 = rng.choice([2, 3, 5, 7, 8, 11]), rng.randint(-6, 6)
        col = _grid_column(rng, max(n, 2), w, t0, nb0)
        axes = [{"w": w, "fixed": True, "adaptive": True, "tag": "fixed_width", "nb": None, "col": col}]
        ops = [{"op": "empty", "out": 0, "binning": gen1.fixed_json(w, 0, 0, adaptive=True), "keep": True}]
        ops += [{"op": "fill", "h": 0, "v": rs(x), "w": "1", "wk": "pyint", "default_w": rng.random() < 0.5} for x in col]
        tags = ["state:started_empty", "state:adaptive"]
        weights = None
    else:
        axes = [kinds_axis(rng, n) for _ in range(d)]
        for a in axes:
            if a["spec"]["k"] not in ("obj", "edges", "count", "numpy", "exponential", "quantile") and rng.random() < 0.55:
                a["spec"]["adaptive"] = True        # h1(..., adaptive=True) for the methods giving fixed-width bins
                a["adaptive"] = True
        nrows = min(len(a["col"]) for a in axes)
        weights, wkind = gen1.weights_for(rng, nrows, kinds=["none", "none", "none", "int", "dyadic", "equal"])
        make = {"op": "make", "out": 0, "dim": d, "specs": [a["spec"] for a in axes],
                "data": [[rs(a["col"][i]) for a in axes] for i in range(nrows)] if nd else [rs(x) for x in axes[0]["col"][:nrows]],
                "weights": None if weights is None else [rs(x) for x in weights], "wkind": wkind}
        if nd:
            make["names"] = rng.sample(["x", "y", "z", "t"], d) if rng.random() < 0.4 else None
            make["entry"] = "h2" if d == 2 and rng.random() < 0.3 else "h"
        ops = [make]
        tags = ["state:adaptive"] if any(a["adaptive"] for a in axes) else []
    st_ops, st_tags = _states(rng, axes, nd, weights is None or wkind == "int64")
    ops += st_ops
    tags += st_tags
    m = len(ops)
    op = {"op": "merge", "h": 0, "inplace": rng.random() < 0.45, "out": 1}
    ax = rng.randrange(d)
    minfreq = rng.random() < 0.14
    if nd:
        if minfreq or rng.random() < 0.7:
            names = ops[0].get("names")
            op["axis"] = names[ax] if names and rng.random() < 0.4 else ax
            op["_axis"] = ax
    else:
        op["axis0"] = rng.random() < 0.4
    if minfreq:
        op["min_freq"] = rng.choice(["1", "2", "5/2", "3", "7/2", "5", "8"])
        mode = "minfreq"
    else:
        op["amount"] = _amount_for(rng, _expected_nb(axes[ax if "_axis" in op or not nd else rng.randrange(d)]))
        if rng.random() < 0.12:
            op["amount"], op["ak"] = str(op["amount"]), rng.choice(NP_INTS)
        mode = "amount" if (not nd or "_axis" in op) else "all"
    ops.append(op)
    # afterwards: values outside the covered range go into the merged histogram
    res = 0 if op["inplace"] else 1
    for _ in range(rng.choice([0, 1, 1, 2])):
        v = []
        for i, a in enumerate(axes):
            lo, hi = min(a["col"]), max(a["col"])
            span = (hi - lo) + (a["w"] or 1.0)
            x = rng.choice(a["col"])
            if (not nd) or "_axis" not in op or i == op["_axis"] or rng.random() < 0.3:
                far = rng.choice([1.0, 1.5, 4.0]) * span + rng.choice([0.0, 0.25, 2.0])
                x = hi + far if rng.random() < 0.65 else lo - far
            v.append(x)
        ops.append({"op": "fill", "h": res, "v": [rs(x) for x in v] if nd else rs(v[0]), "w": rng.choice(["1", "1", "2"]),
                    "wk": "pyint", "default_w": False})
    tags += sorted({"binning:" + a["tag"] for a in axes}) + ["mode:" + mode, "stream:kinds_nd" if nd else "stream:kinds1"]
    if nd:
        tags.append("nd")
    return {"kind": "histn" if nd else "hist1", "c10k": True, "m": m, "ops": ops, "tags": tags}


# ---- what the property says beyond the clauses on the merge itself
def _pairs(b):
    return [(Fraction(l), Fraction(r)) for l, r in b]


def well_formed(snap, nd, when):
    """the histogram's bins through every representation: pairs with l < r in rising order, as many contents as bins, and
    the same edges from bins / numpy_bins / edges / get_bin_edges / left and right edges / the binning object"""
    fails = []
    axes = snap["bins"] if nd else [snap["bins"]]
    shape = snap["shape"] if nd else [len(snap["bins"])]
    if not snap.get("_shape_ok", True) or [len(b) for b in axes] != list(shape):
        fails.append(f"malformed: {when}: contents of shape {shape} for {[len(b) for b in axes]} bins")
    all_consecutive = all(Fraction(b[i][1]) == Fraction(b[i + 1][0]) for b in axes for i in range(len(b) - 1))
    for ax, (b, R) in enumerate(zip(axes, snap["_repr"])):
        pr = _pairs(b)
        where = f"{when}, axis {ax}" if nd else when
        if any(l >= r for l, r in pr) or any(pr[i][1] > pr[i + 1][0] for i in range(len(pr) - 1)):
            fails.append(f"malformed: {where}: the bins {b} are not rising bins of positive width")
            continue
        if not pr:
            continue
        want = {"left": [x[0] for x in b], "right": [x[1] for x in b], "binning_bins": [list(x) for x in b],
                "bin_count": len(b), "first_edge": b[0][0], "last_edge": b[-1][1]}
        if not nd:
            want.update(min_edge=b[0][0], max_edge=b[-1][1], h_bin_count=len(b))
        if all(pr[i][1] == pr[i + 1][0] for i in range(len(pr) - 1)):
            e = [b[0][0]] + [x[1] for x in b]
            want.update(binning_numpy_bins=e)
            if all_consecutive:     # (the N-d histogram builds the edge arrays of all its axes at once: none if one has gaps)
                want.update(numpy_bins=e, edges=e)
        for key, w in want.items():
            if R.get(key) != w:
                fails.append(f"representation: {where}: {key} reads {R.get(key)} while the bins are {b}")
                break
        if R.get("shape") != list(shape):
            fails.append(f"representation: {where}: shape reads {R.get('shape')}, the contents have shape {list(shape)}")
    return fails[:3]


def _embed(old, new):
    """offset at which the bins `old` sit, in order and adjacent, among the bins `new` (None: they do not)"""
    for o in range(len(new) - len(old) + 1):
        if new[o:o + len(old)] == old:
            return o
    return None


def post_fill(before, after, op, ret, nd):
    """a fill of a value outside the covered range after the merge: the merged bins stay bins (where they were, with their
    contents and squared errors) and nothing is lost -- the weight is in a bin or among the missed ones"""
    np = _np()
    if ret == "REFUSED" or before is None or after is None:
        return []
    ob = before["bins"] if nd else [before["bins"]]
    nbins = after["bins"] if nd else [after["bins"]]
    v = [Fraction(x) for x in (op["v"] if nd else [op["v"]])]
    outside = [bool(b) and (x < Fraction(b[0][0]) or x > Fraction(b[-1][1])) for b, x in zip(ob, v)]
    if not any(outside):
        return []
    offs = [_embed(_pairs(b), _pairs(c)) for b, c in zip(ob, nbins)]
    for ax, o in enumerate(offs):
        if o is None:
            return [f"post_fill_edges: filling {op['v']} (outside the range) after merge_bins moved the merged edges"
                    f"{' of axis ' + str(ax) if nd else ''}: {ob[ax]} -> {nbins[ax]}"]
    oshape = [len(b) for b in ob]
    nshape = [len(b) for b in nbins]
    w = Fraction(op["w"])
    fails = []
    for key in ("freq", "err2"):
        if any(x is None for x in before[key] + after[key]):
            return fails
        O = np.array([Fraction(x) for x in before[key]], dtype=object).reshape(oshape)
        N = np.array([Fraction(x) for x in after[key]], dtype=object).reshape(nshape)
        sub = N[tuple(slice(o, o + k) for o, k in zip(offs, oshape))]
        if sub.shape != O.shape or any(a != b for a, b in zip(sub.ravel(), O.ravel())):
            fails.append(f"post_fill_content: filling {op['v']} (outside the range) after merge_bins changed the {key} of the "
                         f"merged bins: {before[key]} -> {after[key]} (bins {before['bins']} -> {after['bins']})")
            return fails
        if key == "freq":
            lost_from, lost_to = sum(O.ravel(), Fraction(0)), sum(N.ravel(), Fraction(0))
    miss = ["missed"] if nd else ["under", "over", "inner"]
    if before.get("keep") and after.get("keep") and all(before[k] is not None and after[k] is not None for k in miss):
        b_all = lost_from + sum(Fraction(before[k]) for k in miss)
        a_all = lost_to + sum(Fraction(after[k]) for k in miss)
        if a_all != b_all + w:
            fails.append(f"post_fill_lost: filling {op['v']} with weight {w} after merge_bins: contents + missed went from "
                         f"{b_all} to {a_all}")
    return fails


def kinds_extra(case, io):
    """clauses of the kinds stream evaluated after the clauses on the merge itself held"""
    nd = case["kind"] == "histn"
    m = merge_index(case)
    outs, ops = io["outs"], case["ops"]
    if outs[m]["ret"] != "ok":
        return []
    res_reg = ops[m]["h"] if ops[m].get("inplace") else ops[m]["out"]
    fails = well_formed(outs[m]["regs"][res_reg], nd, "after merge_bins")
    for k in range(m + 1, len(ops)):
        if fails:
            break
        o = ops[k]
        if o["op"] != "fill" or o["h"] >= len(outs[k]["regs"]):
            continue
        fails += post_fill(outs[k - 1]["regs"][o["h"]], outs[k]["regs"][o["h"]], o, outs[k]["ret"], nd)
        if not fails and outs[k]["ret"] != "REFUSED":
            fails += well_formed(outs[k]["regs"][o["h"]], nd, f"after filling {o['v']} into the merged histogram")
    return fails[:4]


def kinds_tags(case, io):
    """how the amount relates to the bin count actually met on the merged axis (axes), and the state met"""
    m = merge_index(case)
    op = case["ops"][m]
    try:
        src = io["outs"][m - 1]["regs"][op["h"]]
        nd = case["kind"] == "histn"
        counts = src["shape"] if nd else [len(src["bins"])]
        if "_axis" in op:
            counts = [counts[op["_axis"]]]
        t = ["src_adaptive:" + str(bool(src["adaptive"])).lower()]
        if op.get("amount") is not None:
            a = int(Fraction(op["amount"]))
            for n in counts:
                t.append("amount_rel:" + ("one" if a == 1 else "eq" if a == n else "gt" if a > n else "div" if n % a == 0 else "shorter_last_run"))
        return sorted(set(t))
    except Exception:
        return ["setup_refused"]


def _retarget(c, m):
    """the fills after the merge go into its result"""
    op = c["ops"][m]
    for o in c["ops"][m + 1:]:
        o["h"] = op["h"] if op.get("inplace") else op["out"]
    return c


def kinds_shrink(case):
    """no fills after the merge, fewer state changes before it, fewer data points / no weights, the plain call (copy, no
    axis argument, python integer) -- the merge stays at position case["m"], the later fills go into its result"""
    m = merge_index(case)
    ops = case["ops"]
    for k in range(len(ops) - 1, m, -1):
        c = copy.deepcopy(case)
        del c["ops"][k]
        yield c
    fills = [k for k in range(1, m) if ops[k]["op"] == "fill"]
    for k in range(m - 1, 0, -1):
        if ops[0]["op"] == "empty" and ops[k]["op"] == "fill" and len(fills) <= 1:
            continue            # a histogram without bins has nothing to merge
        c = copy.deepcopy(case)
        del c["ops"][k]
        c["m"] = m - 1
        yield c
    mk = ops[0]
    if mk["op"] == "make":
        for j in range(len(mk["data"]) - 1, -1, -1):
            if len(mk["data"]) <= 2:
                break
            c = copy.deepcopy(case)
            del c["ops"][0]["data"][j]
            if c["ops"][0].get("weights") is not None:
                del c["ops"][0]["weights"][j]
            yield c
        if mk.get("weights") is not None:
            c = copy.deepcopy(case)
            c["ops"][0]["weights"] = None
            yield c
    op = ops[m]
    for key in ("inplace", "axis0"):
        if op.get(key):
            c = copy.deepcopy(case)
            c["ops"][m][key] = False
            yield _retarget(c, m)
    if "ak" in op:
        c = copy.deepcopy(case)
        c["ops"][m].pop("ak")
        c["ops"][m]["amount"] = int(Fraction(c["ops"][m]["amount"]))
        yield c


def kinds_neighbours(case):
    """the same histogram in the same state merged by every amount, in place and as a copy"""
    m = merge_index(case)
    for inplace in (False, True):
        for a in range(1, 15):
            c = copy.deepcopy(case)
            o = c["ops"][m]
            o.pop("min_freq", None); o.pop("mk", None); o.pop("ak", None)
            o["amount"], o["inplace"] = a, inplace
            yield _retarget(c, m)


def kinds_grid():
    """a fixed small scope of the kinds stream: fixed-width histograms of 1 .. 7 bins (unit width; 0.1 for 7 bins) made
    adaptive by the constructor / by set_adaptive afterwards / not at all x every amount 1 .. n+1 x copy / in place, each
    followed by a fill beyond the last edge; and a 5 x 3 adaptive 2-D histogram merged on each axis and on both"""
    k = 0
    for nb in (1, 2, 3, 5, 6, 7):
        w = 0.1 if nb == 7 else 1.0
        col = [(i + f) * w for i in range(nb) for f in ((0.5, 0.25) if i % 2 else (0.5,))]
        for state in ("adaptive", "set_adaptive", "plain"):
            for a in range(1, nb + 2):
                k += 1
                spec = {"k": "fixed_width", "bin_width": rs(w)}
                if state == "adaptive":
                    spec["adaptive"] = True
                ops = [{"op": "make", "out": 0, "dim": 1, "specs": [spec], "data": [rs(x) for x in col], "weights": None, "wkind": None}]
                if state == "set_adaptive":
                    ops.append({"op": "set_adaptive", "h": 0, "value": True})
                inplace = k % 2 == 0
                ops.append({"op": "merge", "h": 0, "inplace": inplace, "out": 1, "axis0": k % 3 == 0, "amount": a})
                ops.append({"op": "fill", "h": 0 if inplace else 1, "v": rs((nb + 2.5) * w * 2), "w": "1", "wk": "pyint", "default_w": False})
                yield {"kind": "hist1", "c10k": True, "m": len(ops) - 2, "ops": ops,
                       "tags": ["stream:kinds_grid", "binning:fixed_width", "mode:amount"] + (["state:" + state] if state != "plain" else [])}
    rows = [[i + 0.5, (j + 0.5) * 0.5] for i in range(5) for j in range(3) if (i + j) % 3 != 1]
    for axis in (0, 1, None):
        for a in (2, 3, 4):
            for inplace in (False, True):
                ops = [{"op": "make", "out": 0, "dim": 2, "specs": [{"k": "fixed_width", "bin_width": "1", "adaptive": True},
                                                                   {"k": "fixed_width", "bin_width": "1/2", "adaptive": True}],
                        "data": [[rs(x) for x in r] for r in rows], "weights": None, "wkind": None, "names": None, "entry": "h"}]
                op = {"op": "merge", "h": 0, "inplace": inplace, "out": 1, "amount": a}
                if axis is not None:
                    op["axis"] = op["_axis"] = axis
                ops += [op, {"op": "fill", "h": 0 if inplace else 1, "v": ["19/2", "17/4"], "w": "1", "wk": "pyint", "default_w": False}]
                yield {"kind": "histn", "c10k": True, "m": 1, "ops": ops,
                       "tags": ["stream:kinds_grid", "binning:fixed_width", "nd", "state:adaptive", "mode:" + ("amount" if axis is not None else "all")]}


class C10(Hist1Prop):
    ID = "C10"
    N_QUICK = 480
    N_THOROUGH = 12000
    RULE = ("1-D histograms with 1-12 bins (irregular widths, gaps, tiny gaps), arbitrary contents / errors / missed values x "
            "merge_bins(amount = 1..n+1, or non-integral, or 0) x inplace / copy x axis None / 0, and merge_bins(min_frequency) "
            "with thresholds around the contents; int64 / float64 contents and squared errors beyond 2**53 (given directly, or "
            "counts times a large python integer; 1-D, transformed 1-D classes and N-d) whose run sums are exact; the amount and "
            "the threshold in every numeric carrier (python int / float, numpy integers and floats of all widths, long double, "
            "0-d arrays, Fraction, Decimal), integral, non-integral, zero, negative and above the bin count; histograms whose "
            "axis binning comes from a named method of the facade or a binning object (fixed_width, human / pretty, integer, "
            "exponential, quantile, integer bin count, edge array, FixedWidthBinning with a shift, StaticBinning with gaps) in "
            "every state (adaptive from the constructor, set_adaptive afterwards, grown by fills, started without bins, frozen), "
            "1-D and per axis of N-d, amounts leaving a shorter last run / 1 / the bin count / above it, min_frequency, "
            "followed by fills outside the covered range; the merged histogram read through every representation of its bins. "
            "non-trivial = at least two bins are merged; distinct = hash of the op list")
    FIELDS = {"bins", "freq", "err2", "under", "over", "inner", "total", "dtype", "keep"}

    def gen_case(self, rng, k, tier):
        r = rng.random()
        if r >= 1 - KINDS_SHARE:
            return gen_kinds(rng)
        if r < 0.11:
            return gen_big1(rng)
        if r < 0.23:
            return gen_carrier1(rng)
        if rng.random() < 0.4:
            from . import nd_parts
            return nd_parts.c10_gen(rng)
        pairs, t = gen1.rising_bins(rng)
        while rng.random() < 0.3 and len(pairs) < 12:
            l = pairs[-1][1]
            pairs.append([l, l + rng.choice([0.5, 1.0, 0.25])])
        tags = [x for x in ("gapped", "tiny_gap") if t[x]]
        init = rand_hist_op(rng, pairs)
        nb = len(pairs)
        mode = rng.choice(["amount"] * 3 + ["minfreq"] * 2 + ["bad"])
        op = {"op": "merge", "h": 0, "inplace": rng.random() < 0.4, "out": 1, "axis0": rng.random() < 0.5}
        if mode == "amount":
            op["amount"] = rng.randint(1, nb + 1)
        elif mode == "minfreq":
            fr = [Fraction(x) for x in init["freq"]]
            op["min_freq"] = rs(rng.choice(fr + [sum(fr) / 2, Fraction(1), Fraction(3), Fraction(7, 2), Fraction(100)]))
        else:
            op = {"op": "invalid", "what": rng.choice(["merge_frac", "merge_zero"]), "h": 0}
        return {"kind": "hist1", "ops": [init, op], "tags": tags + ["mode:" + mode]}

    def exhaustive_cases(self, tier):
        """a fixed 7-bin 1-D histogram and a fixed 4x3 histogram x every carrier x {non-integral, integral} amounts x
        inplace / copy (N-d: one axis / all axes), the textbook large integers in 1-D, and the small scope of the kinds
        stream (kinds_grid)"""
        b1 = gen1.binning_json([[float(i), float(i + 1)] for i in range(7)], form="static_obj")
        init1 = {"op": "of_arrays", "out": 0, "binning": b1, "freq": [str(x) for x in (1, 2, 0, 3, 1, 1, 4)], "err2": None,
                 "under": "1", "over": "2", "inner": "0", "dtype": "int64", "keep": True}
        axes = [gen1.binning_json([[float(i), float(i + 1)] for i in range(n)], form="static_obj") for n in (4, 3)]
        initn = {"op": "of_arrays", "out": 0, "axes": axes, "freq": [str(x) for x in range(12)], "err2": None, "missed": "1",
                 "dtype": "int64", "names": None, "keep": True}
        k = 0
        for kinds, values, cls in ((FRACTIONAL, ["5/2", "7/2", "1025/512"], "fractional"), (MUST_ACCEPT, ["2", "3"], "must"),
                                   (MAY_ACCEPT, ["2", "4"], "may")):
            for kind in kinds:
                for v in values:
                    k += 1
                    tags = ["stream:carrier_grid", "amount:" + cls, "carrier:" + kind, "mode:amount"]
                    op = {"op": "merge", "h": 0, "inplace": k % 2 == 0, "out": 1, "axis0": k % 3 == 0, "amount": v, "ak": kind}
                    yield {"kind": "hist1", "ops": [copy.deepcopy(init1), op], "tags": tags}
                    op = {"op": "merge", "h": 0, "inplace": k % 2 == 1, "out": 1, "amount": v, "ak": kind}
                    if k % 3 != 0:
                        op["axis"] = op["_axis"] = k % 2
                    yield {"kind": "histn", "ops": [copy.deepcopy(initn), op], "tags": tags + ["nd"]}
        yield from kinds_grid()
        big = 2**53
        for vals in ([big + 1, 1, 3, big + 3, 7], [big + 1, big + 1, big + 1, 1, 1, 2**60 + 3, 2**60 + 5]):
            for amount in (2, 3):
                for inplace in (False, True):
                    init = {"op": "of_arrays", "out": 0, "binning": gen1.binning_json(
                        [[float(i), float(i + 1)] for i in range(len(vals))], form="pairs"), "freq": [str(x) for x in vals],
                        "err2": [str(x) for x in reversed(vals)], "under": "0", "over": "0", "inner": "0", "dtype": "int64",
                        "keep": True}
                    yield {"kind": "hist1", "ops": [init, {"op": "merge", "h": 0, "inplace": inplace, "out": 1, "amount": amount}],
                           "tags": ["stream:big_grid", "big:int64_direct", "mode:amount"]}

    def run_impl(self, case):
        # the two malformed merges are executed here (they are not part of the generic op language)
        from .. import impl1
        if case.get("c10k"):
            return kinds_run(case)
        op = case["ops"][1]
        if op["op"] != "invalid" or case.get("kind") == "histn":
            return super().run_impl(case)
        s = impl1.Store()
        log = []
        outs = [{"ret": impl1.step(s, case["ops"][0], log), "regs": [impl1.snap1(h) for h in s.regs]}]
        h = s.get(0)
        try:
            if op["what"] == "merge_frac":
                h.merge_bins(2.5, inplace=True)
            else:
                h.merge_bins(0, inplace=True)
            ret = "accepted"
        except Exception as e:
            log.append(f"{type(e).__name__}: {e}"[:200])
            ret = "REFUSED"
        outs.append({"ret": ret, "regs": [impl1.snap1(h) for h in s.regs]})
        return {"outs": outs, "log": log}

    def model_case(self, case, io):
        """the op list in the model's language: integral amounts as natural numbers whatever carried them; classes with
        transformed coordinates as plain 1-D histograms (merging does not look at the transformation)"""
        if case.get("c10k"):
            return kinds_model_case(case, io)
        m = merge_index(case)
        op = case["ops"][m]
        if op.get("op") != "merge" or not ("ak" in op or "mk" in op or any("klass" in o for o in case["ops"])):
            return case
        mop = model_merge_op(op, io["outs"][m]["ret"])
        if mop is None:
            return None
        c = copy.deepcopy(case)
        c["ops"][m] = mop
        for o in c["ops"]:
            o.pop("klass", None)
        return c

    def diff(self, case, model_ok, io):
        if not case.get("c10k"):
            return super().diff(case, model_ok, io)
        # the model started from the state observed before the merge: its outputs are compared from there on
        from ..runner import diff_outputs
        m = merge_index(case)
        tail = [{"ret": "ok", "regs": io["outs"][m - 1]["regs"][:1]}] + list(io["outs"][m:])
        return diff_outputs(model_ok, tail, self.FIELDS | {"missed"}, None)

    def tags(self, case, io):
        t = super().tags(case, io)
        return t + kinds_tags(case, io) if case.get("c10k") else t

    def shrink_candidates(self, case):
        """fewer bins (1-D: the last bin goes; N-d: the last bin of one axis), no explicit squared errors, the plain
        call (copy, no axis argument), python carriers -- the merge under test stays the last op"""
        m = merge_index(case)
        if case["ops"][m].get("op") != "merge":
            return
        if case.get("c10k"):
            yield from kinds_shrink(case)
            return
        if case.get("kind") == "histn":
            from . import nd_parts
            yield from nd_parts.c10_shrink(case)
            return
        init = case["ops"][0]
        nb = len(init["binning"]["bins"])
        op = case["ops"][m]
        # (a wrongly accepted non-integral amount keeps three bins: the replay shows by how many the bins were merged)
        if nb > (3 if op.get("amount") is not None and amount_class(op) == "fractional" else 1):
            for k in (nb - 1, 0):
                c = copy.deepcopy(case)
                i0 = c["ops"][0]
                del i0["binning"]["bins"][k]
                del i0["freq"][k]
                if i0.get("err2") is not None:
                    del i0["err2"][k]
                yield c
        if init.get("err2") is not None:
            c = copy.deepcopy(case)
            c["ops"][0]["err2"] = None
            yield c
        for key in ("klass",):
            if init.get(key):
                c = copy.deepcopy(case)
                del c["ops"][0][key]
                yield c
        for key in ("inplace", "axis0"):
            if op.get(key):
                c = copy.deepcopy(case)
                c["ops"][m][key] = False
                yield c
        for j, x in enumerate(init["freq"]):
            if Fraction(x) != 0 and abs(Fraction(x)) < 2**40:
                c = copy.deepcopy(case)
                c["ops"][0]["freq"][j] = "0"
                yield c

    def neighbours(self, case):
        """the same histogram merged by every amount, in every carrier of the amount the case used (and the fractional
        ones), in place and as a copy"""
        m = merge_index(case)
        op = case["ops"][m]
        if op.get("op") != "merge":
            return
        if case.get("c10k"):
            yield from kinds_neighbours(case)
            return
        if case.get("kind") == "histn":
            nb = max(len(a["bins"]) if a["t"] == "static" else a["count"] for a in case["ops"][0]["axes"])
        else:
            nb = len(case["ops"][0]["binning"]["bins"])
        for inplace in (False, True):
            for a in range(1, nb + 2):
                c = copy.deepcopy(case)
                o = c["ops"][m]
                o.pop("min_freq", None); o.pop("mk", None); o.pop("ak", None)
                o["amount"], o["inplace"] = a, inplace
                yield c
                for kind in NP_INTS[::3] + MAY_ACCEPT[::3]:
                    c2 = copy.deepcopy(c)
                    c2["ops"][m]["amount"], c2["ops"][m]["ak"] = str(a), kind
                    yield c2
            for kind in FRACTIONAL:
                c = copy.deepcopy(case)
                o = c["ops"][m]
                o.pop("min_freq", None); o.pop("mk", None)
                o["amount"], o["ak"], o["inplace"] = "5/2", kind, inplace
                yield c

    def oracle(self, case, io):
        if case.get("c10k"):
            # a construction physt refuses (say, quantiles of tied data) leaves nothing to merge: not this property's business
            m = merge_index(case)
            if any(o["ret"] == "REFUSED" for o in io["outs"][:m]):
                return []
            src = io["outs"][m - 1]["regs"][case["ops"][m]["h"]]
            if not src["bins"] or (case["kind"] == "histn" and not all(src["bins"])):
                return []           # no bins (yet): nothing to merge, nothing pinned
            fails = self.merge_oracle(case, io)
            return fails or kinds_extra(case, io)
        return self.merge_oracle(case, io)

    def merge_oracle(self, case, io):
        if case.get("kind") == "histn":
            from . import nd_parts
            return nd_parts.c10_oracle(case, io)
        outs, ops = io["outs"], case["ops"]
        fails = []
        m = merge_index(case)
        if any(o["ret"] == "REFUSED" for o in outs[:m]):
            return ["refused_valid: setup refused: " + "; ".join(io["log"][:2])]
        op = ops[m]
        reg = op.get("h", 0)
        src = outs[m - 1]["regs"][reg]
        bins = [(Fraction(l), Fraction(r)) for l, r in src["bins"]]
        nb = len(bins)
        f = [Fraction(x) for x in src["freq"]]
        e = [Fraction(x) for x in src["err2"]]
        if op["op"] == "invalid":
            if outs[m]["ret"] != "REFUSED":
                fails.append(f"accepted_invalid: {op['what']} accepted")
            elif outs[m]["regs"][reg] != src:
                fails.append("refused_changed: refused merge changed the histogram")
            return fails
        cls = "must"
        if op.get("amount") is not None:
            cls = amount_class(op)
            if cls in ("fractional", "zero", "negative"):
                # a non-integral amount (whatever carries it) and zero are to be refused; negative amounts are outside the
                # property: only all-or-nothing is looked at
                if outs[m]["ret"] == "REFUSED":
                    if outs[m]["regs"][reg] != src:
                        fails.append("refused_changed: refused merge changed the histogram")
                elif cls != "negative":
                    got = outs[m]["regs"][reg if op.get("inplace") else op["out"]]
                    fails.append(f"accepted_invalid: merge_bins(amount = {amount_text(op)}) accepted: {nb} bins -> "
                                 f"{len(got['bins'])} bins")
                elif not op.get("inplace") and outs[m]["regs"][reg] != src:
                    fails.append("operand_modified: merge_bins() without inplace modified the original")
                return fails
            a = int(amount_of(op)[0])
            runs = [list(range(s, min(nb, s + a))) for s in range(0, nb, a)]
        else:
            runs = None
        crosses_gap = runs is not None and any(bins[i][1] != bins[i + 1][0] for r in runs for i in r[:-1])
        res = outs[m]["regs"][reg if op.get("inplace") else op["out"]] if outs[m]["ret"] == "ok" else None
        if outs[m]["ret"] == "REFUSED":
            if runs is not None and not crosses_gap and cls == "must":
                fails.append(f"refused_valid: merge_bins({amount_text(op)}) refused: " + "; ".join(io["log"][:2]))
            elif runs is None and gen1.is_consecutive_exact([[l, r] for l, r in bins]) and threshold_pinned(op):
                fails.append("refused_valid: merge_bins(min_frequency) refused: " + "; ".join(io["log"][:2]))
            if outs[m]["regs"][reg] != src:
                fails.append("refused_changed: refused merge changed the histogram")
            return fails
        if crosses_gap:
            gap_sizes = [bins[i + 1][0] - bins[i][1] for r in runs for i in r[:-1] if bins[i][1] != bins[i + 1][0]]
            fails.append(f"merged_across_gap: a run spanning a gap of {[float(g) for g in gap_sizes]} was merged")
            return fails
        nbins = [(Fraction(l), Fraction(r)) for l, r in res["bins"]]
        nf = [Fraction(x) for x in res["freq"]]
        ne = [Fraction(x) for x in res["err2"]]
        if runs is not None:
            exp_bins = [(bins[r[0]][0], bins[r[-1]][1]) for r in runs]
            if nbins != exp_bins:
                fails.append(f"merged_bins: bins after merge_bins({amount_text(op)}) are {res['bins']}, expected runs of {a}")
            elif nf != [sum(f[i] for i in r) for r in runs]:
                fails.append(f"merged_content: contents {res['freq']} are not the runs' sums of {src['freq']} (runs of {a})")
            elif ne != [sum(e[i] for i in r) for r in runs]:
                fails.append(f"merged_err2: squared errors {res['err2']} are not the runs' sums of {src['err2']} (runs of {a})")
        else:
            # every new bin is a union of adjacent old bins, in order, nothing lost, outer edges unchanged
            i = 0
            ok = True
            for j, (l, r) in enumerate(nbins):
                if i >= nb or bins[i][0] != l:
                    ok = False
                    break
                sf, se = Fraction(0), Fraction(0)
                while i < nb and bins[i][1] <= r:
                    sf += f[i]; se += e[i]
                    last = bins[i][1]
                    i += 1
                if last != r or sf != nf[j] or se != ne[j]:
                    ok = False
                    break
            if not ok or i != nb:
                fails.append(f"minfreq_union: new bins {res['bins']} / contents {res['freq']} / squared errors {res['err2']} are not "
                             f"unions of adjacent old bins {src['bins']} / {src['freq']} / {src['err2']}")
            if nbins and (nbins[0][0] != bins[0][0] or nbins[-1][1] != bins[-1][1]):
                fails.append("outer_edges: the outer edges changed")
        if sum(nf) != sum(f):
            fails.append("total: total changed")
        elif res.get("total") is not None and Fraction(res["total"]) != sum(f):
            fails.append(f"total: the merged histogram reports the total {res['total']}, its contents add up to {sum(f)}")
        for mk in ("under", "over", "inner"):
            if res[mk] != src[mk]:
                fails.append(f"missed: {mk} changed from {src[mk]} to {res[mk]}")
        if not op.get("inplace") and outs[m]["regs"][reg] != src:
            fails.append("operand_modified: merge_bins() without inplace modified the original")
        return fails[:6]

    def nontrivial(self, case, io):
        o = io["outs"]
        m = merge_index(case)
        if case.get("kind") == "histn":
            return o[m]["ret"] == "ok" and len(o[m]["regs"]) > 0 and o[m]["regs"][-1] is not None and o[m]["regs"][-1]["shape"] != o[m - 1]["regs"][case["ops"][m].get("h", 0)]["shape"]
        try:
            return o[m]["ret"] == "ok" and len(o[m]["regs"][-1]["bins"]) < len(o[m - 1]["regs"][case["ops"][m].get("h", 0)]["bins"])
        except Exception:
            return False


PROP = C10()

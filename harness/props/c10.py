"""C10 — merge_bins conserves content and bin boundaries (1-D; ND part in c10nd)."""
from __future__ import annotations

import copy
from fractions import Fraction

from .. import gen1
from ..core import rs
from .base1 import Hist1Prop


def rand_hist_op(rng, pairs, out=0, keep=None):
    b = gen1.binning_json(pairs, rng=rng, form=rng.choice(["pairs", "static_obj"]))
    nb = len(pairs)
    dt = rng.choice(["int64", "int64", "float64", "int32", "float32"])
    isint = dt.startswith("int")
    f = [rng.choice([0, 0, 1, 2, 3, 5, 8]) if isint else rng.choice([0, 0.5, 1.25, 2, 4.75]) for _ in range(nb)]
    e = None if rng.random() < 0.4 else [rng.randint(0, 9) if isint else rng.randint(0, 40) / 4 for _ in range(nb)]
    gapped = not gen1.is_consecutive_exact(pairs)
    miss = [rng.randint(0, 5) for _ in range(3)]
    return {"op": "of_arrays", "out": out, "binning": b, "freq": [rs(x) for x in f],
            "err2": None if e is None else [rs(x) for x in e], "under": rs(miss[0]), "over": rs(miss[1]),
            "inner": rs(miss[2]), "dtype": dt, "keep": (rng.random() < 0.85) if keep is None else keep}


# ------------------------------------------------------------------ numeric carriers of `amount` / `min_frequency`
# zero amounts in numpy integer types: `i // np.int64(0)` is 0 (with a warning), so the unchanged library ACCEPTS
# merge_bins(np.int64(0)) / np.uint8(0) / np.array(0) and merges all bins into one, while merge_bins(0) is refused
# (ZeroDivisionError).  The oracle wants a zero amount refused whatever carries it (as the Lean model, theorem
# C10_refuse_amount); the sub-class stays out of the generator until that is triaged.
ENABLE_NUMPY_ZERO_AMOUNT = False

NP_INTS = ["int8", "uint8", "int16", "uint16", "int32", "uint32", "int64", "uint64"]
MUST_ACCEPT = ["pyint"] + NP_INTS                     # integers: an amount >= 1 in these must be accepted
MAY_ACCEPT = ["pyfloat", "float64", "float32", "float16", "longdouble", "arr0:int64", "arr0:uint8", "arr0:float64",
              "Fraction", "Decimal"]                  # whole numbers in other clothes: acceptance is not pinned
FRACTIONAL = ["pyfloat", "float64", "float32", "float16", "longdouble", "arr0:float64", "arr0:float32", "f32div",
              "Fraction", "Decimal"]                  # carriers of non-integral amounts: always to be refused
FRAC_VALUES = ["5/2", "3/2", "7/2", "1/2", "9/4", "9/2", "1025/512", "201/2", "-5/2"]     # all exact in float16
SIGNED = ["pyint", "int8", "int16", "int32", "int64", "pyfloat", "float32", "Fraction"]
THRESHOLD_KINDS = ["pyint", "pyfloat"] + NP_INTS + ["float64", "float32", "float16", "longdouble", "arr0:float64",
                                                    "arr0:int64", "Fraction", "Decimal"]


def merge_index(case):
    """position of the merge under test: the last op"""
    return len(case["ops"]) - 1


def amount_of(op):
    """(value as Fraction, carrier name) of a merge op's amount, or None"""
    if op.get("amount") is None:
        return None
    return Fraction(op["amount"]), op.get("ak") or "pyint"


def amount_class(op):
    """what the property says about the amount: "fractional" / "zero" (to be refused), "negative" (outside the
    quantifier: nothing pinned but all-or-nothing), "must" (an integer >= 1: accepted unless a run spans a gap),
    "may" (a whole number >= 1 in a non-integer type: either refused or merged by exactly that amount)"""
    v, kind = amount_of(op)
    if v.denominator != 1:
        return "fractional"
    if v == 0:
        return "zero"
    if v < 0:
        return "negative"
    return "must" if kind in MUST_ACCEPT else "may"


def amount_text(op):
    v, kind = amount_of(op)
    return f"{v} carried as {kind}"


def rand_amount(rng, nb, op):
    """puts an amount in some numeric carrier into the merge op; returns the tags"""
    r = rng.random()
    if r < 0.42:
        v = rng.choice(FRAC_VALUES)
        kind = rng.choice(FRACTIONAL)
        if kind == "f32div" and Fraction(v) < 0:
            kind = "float32"
        cls = "fractional"
    elif r < 0.47:
        v, kind, cls = "0", "pyint", "zero"
        if ENABLE_NUMPY_ZERO_AMOUNT and rng.random() < 0.6:
            kind = rng.choice(NP_INTS + ["arr0:int64"])
    elif r < 0.53:
        v, kind, cls = str(-rng.choice([1, 2, max(1, nb - 1), nb, nb + 3])), rng.choice(SIGNED), "negative"
    else:
        a = rng.randint(1, nb + 1)
        if rng.random() < 0.12:
            a = rng.choice([100, 127])
        cls = "must" if rng.random() < 0.6 else "may"
        kind = rng.choice(MUST_ACCEPT if cls == "must" else MAY_ACCEPT)
        if rng.random() < 0.05 and kind in ("pyint", "int64", "uint64", "float64", "pyfloat", "Fraction", "arr0:int64"):
            a = 2**40
        v = str(a)
    op["amount"], op["ak"] = v, kind
    return ["amount:" + cls, "carrier:" + kind]


def rand_threshold(rng, op, pool=("1", "2", "5/2", "3", "7/2", "5", "8", "12")):
    op["min_freq"] = rng.choice(list(pool))
    kind = rng.choice(THRESHOLD_KINDS)
    if Fraction(op["min_freq"]).denominator != 1 and (kind == "pyint" or kind in NP_INTS or kind == "arr0:int64"):
        kind = rng.choice(["float32", "float16", "Fraction", "Decimal", "longdouble"])
    op["mk"] = kind
    return ["threshold_carrier:" + kind]


def threshold_pinned(op):
    """thresholds as python / numpy numbers must be accepted; other carriers (long double, 0-d arrays, Fraction, Decimal) may
    be refused (all-or-nothing) -- when they are accepted the result is checked all the same"""
    return op.get("mk") in (None, "pyint", "pyfloat", "float64", "float32", "float16") or op.get("mk") in NP_INTS


def model_merge_op(op, ret):
    """the merge op as the Lean driver can read it (amount: a natural number), or None when the model has no say:
    non-integral amounts are outside the model's domain -- its statement for them is the driver's `invalid` op (refused,
    nothing touched); negative amounts are not modelled; whole numbers in non-integer types only when physt took them"""
    op = copy.deepcopy(op)
    op.pop("mk", None)
    if op.get("amount") is None or "ak" not in op:
        return op
    cls = amount_class(op)
    op.pop("ak")
    if cls == "fractional":
        return {"op": "invalid", "what": "merge_frac", "h": op["h"]}
    if cls == "negative" or (cls == "may" and ret != "ok"):
        return None
    op["amount"] = int(Fraction(op["amount"]))
    return op


# ------------------------------------------------------------------ contents / squared errors beyond 2**53
BIG_INTS = [2**53 + 1, 2**53 + 3, 2**53 - 1, 2**54 + 1, 2**55 + 7, 2**56 - 1, 2**57 + 5, 2**58 + 9, 2**59 + 1, 2**60 + 3,
            10**16 + 1, 3 * 10**17 + 7, 9007199254740993 * 3]
INT64_MAX = 2**63 - 1


def big_int_values(rng, n, cap=INT64_MAX):
    """n non-negative integers, most of them odd and beyond 2**53, adding up to at most `cap` (every run sum and the
    total stay inside int64, none of them is a double)"""
    vals = [rng.choice(BIG_INTS) if rng.random() < 0.6 else rng.choice([0, 1, 2, 3, 7, 400, 2**31 + 1, 2**52 + 1])
            for _ in range(n)]
    while sum(vals) > cap:
        k = max(range(n), key=lambda i: vals[i])
        vals[k] = vals[k] // 16 + 1
    return vals


def big_float_values(rng, n):
    """doubles c * 2**k whose integer coefficients c add up to less than 2**53: every partial sum in any order is exactly
    representable, though the numbers are far beyond 2**53 (or have 53 significant bits)"""
    k = rng.choice([0, 1, 30, 60, 200, -30])
    budget = 2**53 - 1
    coef = []
    for _ in range(n):
        c = rng.choice([0, 1, 3, 2**20 + 1, 2**40 + 5, 2**51 + 1, 2**52 + 1, rng.randint(0, 2**48)])
        c = min(c, budget)
        budget -= c
        coef.append(c)
    rng.shuffle(coef)
    return [Fraction(c) * Fraction(2) ** k for c in coef]


def big_hist_ops(rng, pairs):
    """ops building a 1-D histogram with large contents in register `reg`; returns (ops, reg, tags, freq list)"""
    nb = len(pairs)
    b = gen1.binning_json(pairs, rng=rng, form=rng.choice(["pairs", "static_obj"]))
    miss = [rng.randint(0, 5) for _ in range(3)]
    init = {"op": "of_arrays", "out": 0, "binning": b, "under": rs(miss[0]), "over": rs(miss[1]), "inner": rs(miss[2]),
            "keep": rng.random() < 0.85}
    if rng.random() < 0.25:
        init["klass"] = rng.choice(["RadialHistogram", "AzimuthalHistogram"])
    how = rng.choice(["direct", "direct", "scaled", "float"])
    if how == "direct":
        f = big_int_values(rng, nb)
        r = rng.random()
        e = None if r < 0.3 else (big_int_values(rng, nb) if r < 0.8 else [rng.randint(0, 9) for _ in range(nb)])
        if r >= 0.8 and rng.random() < 0.5:
            f, e = e, f                       # small contents, huge squared errors
        init.update(freq=[str(x) for x in f], err2=None if e is None else [str(x) for x in e], dtype="int64")
        return [init], 0, ["big:int64_direct"], f
    if how == "scaled":
        # a counting histogram times a large python integer: contents c*k, squared errors c*k*k
        k = rng.choice([10_000_001, 10_000_001, 94_906_267, 300_000_007, 2**27 + 1])
        room = INT64_MAX // (k * k)
        c = [min(rng.choice([0, 1, 3, 17, 400, 163, 1000, 12345]), max(0, room // nb)) for _ in range(nb)]
        init.update(freq=[str(x) for x in c], err2=None, dtype="int64")
        mul = {"op": "mul", "h": 0, "c": str(k), "k": "pyint", "out": 1, "reflected": rng.random() < 0.3}
        if rng.random() < 0.3:
            mul = {"op": "imul", "h": 0, "c": str(k), "k": "pyint"}
            return [init, mul], 0, ["big:int64_scaled"], [x * k for x in c]
        return [init, mul], 1, ["big:int64_scaled"], [x * k for x in c]
    f = big_float_values(rng, nb)
    e = None if rng.random() < 0.3 else big_float_values(rng, nb)
    init.update(freq=[rs(x) for x in f], err2=None if e is None else [rs(x) for x in e], dtype="float64")
    return [init], 0, ["big:float64_exact"], f


def gen_big1(rng):
    pairs, t = gen1.rising_bins(rng, allow_gaps=rng.random() < 0.2)
    while rng.random() < 0.4 and len(pairs) < 12:
        l = pairs[-1][1]
        pairs.append([l, l + rng.choice([0.5, 1.0, 0.25])])
    nb = len(pairs)
    ops, reg, tags, f = big_hist_ops(rng, pairs)
    op = {"op": "merge", "h": reg, "inplace": rng.random() < 0.4, "out": reg + 1, "axis0": rng.random() < 0.5}
    isint = ops[0]["dtype"] == "int64"
    if rng.random() < 0.65:
        op["amount"] = rng.randint(1 if rng.random() < 0.1 else 2, nb + 1)
        if rng.random() < 0.3:
            op["amount"], op["ak"] = str(op["amount"]), rng.choice(NP_INTS)
        mode = "amount"
    else:
        # thresholds among the contents and their sums: python integers for integer contents (compared exactly), doubles
        # (exact sums of the grid) for float contents
        fr = [Fraction(x) for x in f]
        pool = [x for x in fr] + [fr[i] + fr[i + 1] for i in range(nb - 1)] + [sum(fr), Fraction(1), Fraction(2**53)]
        op["min_freq"] = rs(rng.choice(pool))
        op["mk"] = "pyint" if isint else "pyfloat"
        mode = "minfreq"
    tags = tags + [x for x in ("gapped", "tiny_gap") if t[x]] + ["stream:big1", "mode:" + mode]
    if ops[0].get("klass"):
        tags.append("class:" + ops[0]["klass"])
    return {"kind": "hist1", "ops": ops + [op], "tags": tags}


def gen_carrier1(rng):
    pairs, t = gen1.rising_bins(rng, allow_gaps=rng.random() < 0.25)
    while rng.random() < 0.3 and len(pairs) < 12:
        l = pairs[-1][1]
        pairs.append([l, l + rng.choice([0.5, 1.0, 0.25])])
    init = rand_hist_op(rng, pairs)
    op = {"op": "merge", "h": 0, "inplace": rng.random() < 0.5, "out": 1, "axis0": rng.random() < 0.5}
    if rng.random() < 0.8:
        tags = rand_amount(rng, len(pairs), op) + ["mode:amount"]
    else:
        tags = rand_threshold(rng, op) + ["mode:minfreq"]
    return {"kind": "hist1", "ops": [init, op], "tags": [x for x in ("gapped", "tiny_gap") if t[x]] + tags + ["stream:carrier1"]}


class C10(Hist1Prop):
    ID = "C10"
    N_QUICK = 400
    N_THOROUGH = 10000
    RULE = ("1-D histograms with 1-12 bins (irregular widths, gaps, tiny gaps), arbitrary contents / errors / missed values x "
            "merge_bins(amount = 1..n+1, or non-integral, or 0) x inplace / copy x axis None / 0, and merge_bins(min_frequency) "
            "with thresholds around the contents; int64 / float64 contents and squared errors beyond 2**53 (given directly, or "
            "counts times a large python integer; 1-D, transformed 1-D classes and N-d) whose run sums are exact; the amount and "
            "the threshold in every numeric carrier (python int / float, numpy integers and floats of all widths, long double, "
            "0-d arrays, Fraction, Decimal), integral, non-integral, zero, negative and above the bin count. "
            "non-trivial = at least two bins are merged; distinct = hash of the op list")
    FIELDS = {"bins", "freq", "err2", "under", "over", "inner", "total", "dtype", "keep"}

    def gen_case(self, rng, k, tier):
        r = rng.random()
        if r < 0.11:
            return gen_big1(rng)
        if r < 0.23:
            return gen_carrier1(rng)
        if rng.random() < 0.4:
            from . import nd_parts
            return nd_parts.c10_gen(rng)
        pairs, t = gen1.rising_bins(rng)
        while rng.random() < 0.3 and len(pairs) < 12:
            l = pairs[-1][1]
            pairs.append([l, l + rng.choice([0.5, 1.0, 0.25])])
        tags = [x for x in ("gapped", "tiny_gap") if t[x]]
        init = rand_hist_op(rng, pairs)
        nb = len(pairs)
        mode = rng.choice(["amount"] * 3 + ["minfreq"] * 2 + ["bad"])
        op = {"op": "merge", "h": 0, "inplace": rng.random() < 0.4, "out": 1, "axis0": rng.random() < 0.5}
        if mode == "amount":
            op["amount"] = rng.randint(1, nb + 1)
        elif mode == "minfreq":
            fr = [Fraction(x) for x in init["freq"]]
            op["min_freq"] = rs(rng.choice(fr + [sum(fr) / 2, Fraction(1), Fraction(3), Fraction(7, 2), Fraction(100)]))
        else:
            op = {"op": "invalid", "what": rng.choice(["merge_frac", "merge_zero"]), "h": 0}
        return {"kind": "hist1", "ops": [init, op], "tags": tags + ["mode:" + mode]}

    def exhaustive_cases(self, tier):
        """a fixed 7-bin 1-D histogram and a fixed 4x3 histogram x every carrier x {non-integral, integral} amounts x
        inplace / copy (N-d: one axis / all axes), and the textbook large integers in 1-D"""
        b1 = gen1.binning_json([[float(i), float(i + 1)] for i in range(7)], form="static_obj")
        init1 = {"op": "of_arrays", "out": 0, "binning": b1, "freq": [str(x) for x in (1, 2, 0, 3, 1, 1, 4)], "err2": None,
                 "under": "1", "over": "2", "inner": "0", "dtype": "int64", "keep": True}
        axes = [gen1.binning_json([[float(i), float(i + 1)] for i in range(n)], form="static_obj") for n in (4, 3)]
        initn = {"op": "of_arrays", "out": 0, "axes": axes, "freq": [str(x) for x in range(12)], "err2": None, "missed": "1",
                 "dtype": "int64", "names": None, "keep": True}
        k = 0
        for kinds, values, cls in ((FRACTIONAL, ["5/2", "7/2", "1025/512"], "fractional"), (MUST_ACCEPT, ["2", "3"], "must"),
                                   (MAY_ACCEPT, ["2", "4"], "may")):
            for kind in kinds:
                for v in values:
                    k += 1
                    tags = ["stream:carrier_grid", "amount:" + cls, "carrier:" + kind, "mode:amount"]
                    op = {"op": "merge", "h": 0, "inplace": k % 2 == 0, "out": 1, "axis0": k % 3 == 0, "amount": v, "ak": kind}
                    yield {"kind": "hist1", "ops": [copy.deepcopy(init1), op], "tags": tags}
                    op = {"op": "merge", "h": 0, "inplace": k % 2 == 1, "out": 1, "amount": v, "ak": kind}
                    if k % 3 != 0:
                        op["axis"] = op["_axis"] = k % 2
                    yield {"kind": "histn", "ops": [copy.deepcopy(initn), op], "tags": tags + ["nd"]}
        big = 2**53
        for vals in ([big + 1, 1, 3, big + 3, 7], [big + 1, big + 1, big + 1, 1, 1, 2**60 + 3, 2**60 + 5]):
            for amount in (2, 3):
                for inplace in (False, True):
                    init = {"op": "of_arrays", "out": 0, "binning": gen1.binning_json(
                        [[float(i), float(i + 1)] for i in range(len(vals))], form="pairs"), "freq": [str(x) for x in vals],
                        "err2": [str(x) for x in reversed(vals)], "under": "0", "over": "0", "inner": "0", "dtype": "int64",
                        "keep": True}
                    yield {"kind": "hist1", "ops": [init, {"op": "merge", "h": 0, "inplace": inplace, "out": 1, "amount": amount}],
                           "tags": ["stream:big_grid", "big:int64_direct", "mode:amount"]}

    def run_impl(self, case):
        # the two malformed merges are executed here (they are not part of the generic op language)
        from .. import impl1
        op = case["ops"][1]
        if op["op"] != "invalid" or case.get("kind") == "histn":
            return super().run_impl(case)
        s = impl1.Store()
        log = []
        outs = [{"ret": impl1.step(s, case["ops"][0], log), "regs": [impl1.snap1(h) for h in s.regs]}]
        h = s.get(0)
        try:
            if op["what"] == "merge_frac":
                h.merge_bins(2.5, inplace=True)
            else:
                h.merge_bins(0, inplace=True)
            ret = "accepted"
        except Exception as e:
            log.append(f"{type(e).__name__}: {e}"[:200])
            ret = "REFUSED"
        outs.append({"ret": ret, "regs": [impl1.snap1(h) for h in s.regs]})
        return {"outs": outs, "log": log}

    def model_case(self, case, io):
        """the op list in the model's language: integral amounts as natural numbers whatever carried them; classes with
        transformed coordinates as plain 1-D histograms (merging does not look at the transformation)"""
        m = merge_index(case)
        op = case["ops"][m]
        if op.get("op") != "merge" or not ("ak" in op or "mk" in op or any("klass" in o for o in case["ops"])):
            return case
        mop = model_merge_op(op, io["outs"][m]["ret"])
        if mop is None:
            return None
        c = copy.deepcopy(case)
        c["ops"][m] = mop
        for o in c["ops"]:
            o.pop("klass", None)
        return c

    def shrink_candidates(self, case):
        """fewer bins (1-D: the last bin goes; N-d: the last bin of one axis), no explicit squared errors, the plain
        call (copy, no axis argument), python carriers -- the merge under test stays the last op"""
        m = merge_index(case)
        if case["ops"][m].get("op") != "merge":
            return
        if case.get("kind") == "histn":
            from . import nd_parts
            yield from nd_parts.c10_shrink(case)
            return
        init = case["ops"][0]
        nb = len(init["binning"]["bins"])
        op = case["ops"][m]
        # (a wrongly accepted non-integral amount keeps three bins: the replay shows by how many the bins were merged)
        if nb > (3 if op.get("amount") is not None and amount_class(op) == "fractional" else 1):
            for k in (nb - 1, 0):
                c = copy.deepcopy(case)
                i0 = c["ops"][0]
                del i0["binning"]["bins"][k]
                del i0["freq"][k]
                if i0.get("err2") is not None:
                    del i0["err2"][k]
                yield c
        if init.get("err2") is not None:
            c = copy.deepcopy(case)
            c["ops"][0]["err2"] = None
            yield c
        for key in ("klass",):
            if init.get(key):
                c = copy.deepcopy(case)
                del c["ops"][0][key]
                yield c
        for key in ("inplace", "axis0"):
            if op.get(key):
                c = copy.deepcopy(case)
                c["ops"][m][key] = False
                yield c
        for j, x in enumerate(init["freq"]):
            if Fraction(x) != 0 and abs(Fraction(x)) < 2**40:
                c = copy.deepcopy(case)
                c["ops"][0]["freq"][j] = "0"
                yield c

    def neighbours(self, case):
        """the same histogram merged by every amount, in every carrier of the amount the case used (and the fractional
        ones), in place and as a copy"""
        m = merge_index(case)
        op = case["ops"][m]
        if op.get("op") != "merge":
            return
        if case.get("kind") == "histn":
            nb = max(len(a["bins"]) if a["t"] == "static" else a["count"] for a in case["ops"][0]["axes"])
        else:
            nb = len(case["ops"][0]["binning"]["bins"])
        for inplace in (False, True):
            for a in range(1, nb + 2):
                c = copy.deepcopy(case)
                o = c["ops"][m]
                o.pop("min_freq", None); o.pop("mk", None); o.pop("ak", None)
                o["amount"], o["inplace"] = a, inplace
                yield c
                for kind in NP_INTS[::3] + MAY_ACCEPT[::3]:
                    c2 = copy.deepcopy(c)
                    c2["ops"][m]["amount"], c2["ops"][m]["ak"] = str(a), kind
                    yield c2
            for kind in FRACTIONAL:
                c = copy.deepcopy(case)
                o = c["ops"][m]
                o.pop("min_freq", None); o.pop("mk", None)
                o["amount"], o["ak"], o["inplace"] = "5/2", kind, inplace
                yield c

    def oracle(self, case, io):
        if case.get("kind") == "histn":
            from . import nd_parts
            return nd_parts.c10_oracle(case, io)
        outs, ops = io["outs"], case["ops"]
        fails = []
        m = merge_index(case)
        if any(o["ret"] == "REFUSED" for o in outs[:m]):
            return ["refused_valid: setup refused: " + "; ".join(io["log"][:2])]
        op = ops[m]
        reg = op.get("h", 0)
        src = outs[m - 1]["regs"][reg]
        bins = [(Fraction(l), Fraction(r)) for l, r in src["bins"]]
        nb = len(bins)
        f = [Fraction(x) for x in src["freq"]]
        e = [Fraction(x) for x in src["err2"]]
        if op["op"] == "invalid":
            if outs[m]["ret"] != "REFUSED":
                fails.append(f"accepted_invalid: {op['what']} accepted")
            elif outs[m]["regs"][reg] != src:
                fails.append("refused_changed: refused merge changed the histogram")
            return fails
        cls = "must"
        if op.get("amount") is not None:
            cls = amount_class(op)
            if cls in ("fractional", "zero", "negative"):
                # a non-integral amount (whatever carries it) and zero are to be refused; negative amounts are outside the
                # property: only all-or-nothing is looked at
                if outs[m]["ret"] == "REFUSED":
                    if outs[m]["regs"][reg] != src:
                        fails.append("refused_changed: refused merge changed the histogram")
                elif cls != "negative":
                    got = outs[m]["regs"][reg if op.get("inplace") else op["out"]]
                    fails.append(f"accepted_invalid: merge_bins(amount = {amount_text(op)}) accepted: {nb} bins -> "
                                 f"{len(got['bins'])} bins")
                elif not op.get("inplace") and outs[m]["regs"][reg] != src:
                    fails.append("operand_modified: merge_bins() without inplace modified the original")
                return fails
            a = int(amount_of(op)[0])
            runs = [list(range(s, min(nb, s + a))) for s in range(0, nb, a)]
        else:
            runs = None
        crosses_gap = runs is not None and any(bins[i][1] != bins[i + 1][0] for r in runs for i in r[:-1])
        res = outs[m]["regs"][reg if op.get("inplace") else op["out"]] if outs[m]["ret"] == "ok" else None
        if outs[m]["ret"] == "REFUSED":
            if runs is not None and not crosses_gap and cls == "must":
                fails.append(f"refused_valid: merge_bins({amount_text(op)}) refused: " + "; ".join(io["log"][:2]))
            elif runs is None and gen1.is_consecutive_exact([[l, r] for l, r in bins]) and threshold_pinned(op):
                fails.append("refused_valid: merge_bins(min_frequency) refused: " + "; ".join(io["log"][:2]))
            if outs[m]["regs"][reg] != src:
                fails.append("refused_changed: refused merge changed the histogram")
            return fails
        if crosses_gap:
            gap_sizes = [bins[i + 1][0] - bins[i][1] for r in runs for i in r[:-1] if bins[i][1] != bins[i + 1][0]]
            fails.append(f"merged_across_gap: a run spanning a gap of {[float(g) for g in gap_sizes]} was merged")
            return fails
        nbins = [(Fraction(l), Fraction(r)) for l, r in res["bins"]]
        nf = [Fraction(x) for x in res["freq"]]
        ne = [Fraction(x) for x in res["err2"]]
        if runs is not None:
            exp_bins = [(bins[r[0]][0], bins[r[-1]][1]) for r in runs]
            if nbins != exp_bins:
                fails.append(f"merged_bins: bins after merge_bins({amount_text(op)}) are {res['bins']}, expected runs of {a}")
            elif nf != [sum(f[i] for i in r) for r in runs]:
                fails.append(f"merged_content: contents {res['freq']} are not the runs' sums of {src['freq']} (runs of {a})")
            elif ne != [sum(e[i] for i in r) for r in runs]:
                fails.append(f"merged_err2: squared errors {res['err2']} are not the runs' sums of {src['err2']} (runs of {a})")
        else:
            # every new bin is a union of adjacent old bins, in order, nothing lost, outer edges unchanged
            i = 0
            ok = True
            for j, (l, r) in enumerate(nbins):
                if i >= nb or bins[i][0] != l:
                    ok = False
                    break
                sf, se = Fraction(0), Fraction(0)
                while i < nb and bins[i][1] <= r:
                    sf += f[i]; se += e[i]
                    last = bins[i][1]
                    i += 1
                if last != r or sf != nf[j] or se != ne[j]:
                    ok = False
                    break
            if not ok or i != nb:
                fails.append(f"minfreq_union: new bins {res['bins']} / contents {res['freq']} / squared errors {res['err2']} are not "
                             f"unions of adjacent old bins {src['bins']} / {src['freq']} / {src['err2']}")
            if nbins and (nbins[0][0] != bins[0][0] or nbins[-1][1] != bins[-1][1]):
                fails.append("outer_edges: the outer edges changed")
        if sum(nf) != sum(f):
            fails.append("total: total changed")
        elif res.get("total") is not None and Fraction(res["total"]) != sum(f):
            fails.append(f"total: the merged histogram reports the total {res['total']}, its contents add up to {sum(f)}")
        for mk in ("under", "over", "inner"):
            if res[mk] != src[mk]:
                fails.append(f"missed: {mk} changed from {src[mk]} to {res[mk]}")
        if not op.get("inplace") and outs[m]["regs"][reg] != src:
            fails.append("operand_modified: merge_bins() without inplace modified the original")
        return fails[:6]

    def nontrivial(self, case, io):
        o = io["outs"]
        m = merge_index(case)
        if case.get("kind") == "histn":
            return o[m]["ret"] == "ok" and len(o[m]["regs"]) > 0 and o[m]["regs"][-1] is not None and o[m]["regs"][-1]["shape"] != o[m - 1]["regs"][case["ops"][m].get("h", 0)]["shape"]
        try:
            return o[m]["ret"] == "ok" and len(o[m]["regs"][-1]["bins"]) < len(o[m - 1]["regs"][case["ops"][m].get("h", 0)]["bins"])
        except Exception:
            return False


PROP = C10()

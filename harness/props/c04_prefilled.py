"""C04, stream `prefilled`: adaptive fixed-width histograms STARTED PRE-FILLED through every constructor form.

The older streams of C04 start from a histogram without bins.  Here the histogram exists, with contents, before the first
fill, and its bins come from one of the ways a caller can describe them:

* `min`         FixedWidthBinning(bin_width=w, bin_count=n, min=m, adaptive=True)
* `tmin_shift`  FixedWidthBinning(bin_width=w, bin_count=n, bin_times_min=t, bin_shift=s, adaptive=True)
* `afw_numpy` / `afw_static`   NumpyBinning(edges) / StaticBinning(pairs) with equally wide bins, `.as_fixed_width()`, made
                adaptive through the binning or through the histogram
* `data`        h1(data, "fixed_width", bin_width=w, adaptive=True[, align=False]) / h(data, "fixed_width", bin_width=[..], ...)

in 1-D (Histogram1D) and on every axis of a 2-D / 3-D histogram.  Widths are mostly non-dyadic (0.1, 0.2, 0.3, 0.7, 1/3 ...),
minima are k*w computed in floating point (3*0.1, 6*0.1, 7*0.1 ... where round(m/w)*w != m), decimal literals, one-ulp
neighbours of those, genuinely shifted ones and plain integers.  Then fill / fill_n of: the minimum itself, its one-ulp
neighbours, the multiple of the width next to it, the last edge, edges in between, interior and far values on both sides.

The oracle states, on the implementation's own outputs and the CONSTRUCTOR ARGUMENTS (exact `Fraction` arithmetic):
 (a) before any fill the bins are the ones the arguments describe (as many, the first edge is the requested minimum itself,
     the others where origin + i*width is up to rounding; for `tmin_shift` exactly (t+i)*w+s; for `data` on the multiples of
     the width and around the data), with the contents given;
 (b) after every step each earlier edge is still an edge, bit for bit, and each cell holds what it held at the start plus the
     weights of the entered points that lie in its half-open intervals - contents stay attached to their interval;
 (c) every entered point lies in the cell find_bin reports for it;
 (d) on each axis the bins reach exactly from the lower of (requested first bin, bin of the smallest value) to the higher of
     (last bin at the start, bin of the largest value): a value equal to the minimum never makes a bin;
 (e) total = contents given + weights entered, nothing under / over / missed.

Model: the start is `of_arrays` over a fixed-width grid; for `min` / `afw_*` the driver decomposes the minimum as the
constructor does (`Driver.gridOfMin`); for `data` the model runs an empty adaptive grid and `fill_n(data)` (the facade has no
model of its own) and its first answer is left out of the comparison.
"""
from __future__ import annotations

import bisect
import copy
from fractions import Fraction as F

import numpy as np

from .. import gen1, impl1, implnd
from ..core import rs
from ..sharing import sharing as _sharing

ENABLE_PREFILLED = True
PRE_EVERY = 5            # case index k with k % PRE_EVERY == PRE_EVERY - 1 belongs to this stream (no draw taken from the older streams)

# FixedWidthBinning(bin_width=0.3, bin_count=2, min=-0.03).numpy_bins[0] is -0.02999999999999997 on the unchanged library
# (for -w < min < 0 the constructor's shift min + w is rounded), so an adaptive histogram pre-filled that way makes a spare
# bin on the left for the value -0.03 itself.  Reported; the sub-class stays out of the generator until it is triaged.
ENABLE_MIN_JUST_BELOW_ZERO = False

WIDTHS = [0.1, 0.1, 0.1, 0.2, 0.3, 0.7, 1 / 3, 0.6, 1.1, 0.05, 1e-3, 2.5, 1.0, 0.25]
K_FAV = [3, 6, 7, 12, 17, 23, -3, -6, -7, -12, 5, 11, 14, 19]
ARRAY_FORMS = ["min", "min", "min", "tmin_shift", "afw_numpy", "afw_static"]


def is_pre(case) -> bool:
    return bool((case.get("src") or {}).get("pre"))


def fl(s) -> float:
    return impl1.fl(s)


# ----------------------------------------------------------------------------------------------- generation

def _risky(m: float, w: float) -> bool:
    return (-w < m < 0) and not ENABLE_MIN_JUST_BELOW_ZERO


def gen_axis(rng, form=None, nmax=4) -> dict:
    """one axis: constructor form, width, requested minimum, number of bins"""
    w = rng.choice(WIDTHS)
    form = form or rng.choice(ARRAY_FORMS)
    n = rng.randint(1, nmax)
    k = rng.choice(K_FAV) if rng.random() < 0.5 else rng.randint(-30, 30)
    kind = rng.choice(["kw", "kw", "kw", "decimal", "ulp", "frac", "plain"] + (["below_zero"] if ENABLE_MIN_JUST_BELOW_ZERO else []))
    if kind == "below_zero":
        m = -rng.choice([0.1, 0.37, 0.5, 0.9, 0.03]) * w
    elif kind == "kw":
        m = k * w
    elif kind == "decimal":
        m = round(k * w, rng.choice([1, 2, 3]))
    elif kind == "ulp":
        k = k or 1
        m = gen1.nxt(k * w, rng.random() < 0.5)
    elif kind == "frac":
        m = (k + rng.choice([0.5, 0.25, 0.37, 0.9])) * w
    else:
        m = float(k)
    m = float(m) + 0.0
    if _risky(m, w):
        m = -m
    ax = {"form": form, "w": rs(w), "n": n, "kind": kind}
    if form == "tmin_shift":
        s = rng.choice([0.0, 0.0, 0.5, 0.25, 0.05, 0.37]) * w
        ax.update(t=k, s=rs(s), m=rs(k * w + s))       # the first edge by the formula of numpy_bins
        return ax
    if form in ("afw_numpy", "afw_static"):
        if rng.random() < 0.5:
            e = [m + i * w for i in range(n + 1)]
        else:
            e = [float(x) for x in np.linspace(m, m + n * w, n + 1)]
        weff = e[1] - e[0]
        if all(a < b for a, b in zip(e, e[1:])) and weff > 0 and not _risky(e[0], weff):
            ax.update(w=rs(weff), m=rs(e[0]), edges=[rs(x) for x in e], via=rng.choice(["binning", "hist"]))
            return ax
        ax["form"] = "min"
    ax["m"] = rs(m)
    return ax


def axis_values(rng, ax, count, far=(8, 120), no_far=False) -> list:
    """coordinates aimed at the described grid: the minimum, its neighbours, the multiples of the width beside it, the last
    edge, edges in between, interior and far values"""
    w, m, n = fl(ax["w"]), fl(ax["m"]), ax["n"]
    k0 = round(m / w)
    last = m + n * w
    out = []
    for _ in range(count):
        r = rng.random()
        if r < 0.22:
            x = m
        elif r < 0.34:
            x = gen1.nxt(m, rng.random() < 0.5)
        elif r < 0.44:
            x = k0 * w
            if rng.random() < 0.25:
                x = gen1.nxt(x, rng.random() < 0.5)
        elif r < 0.56:
            x = rng.choice([last, (k0 + n) * w, gen1.nxt(last, True), gen1.nxt(last, False)])
        elif r < 0.68:
            i = rng.randint(0, n)
            x = rng.choice([m + i * w, (k0 + i) * w])
            if rng.random() < 0.3:
                x = gen1.nxt(x, rng.random() < 0.5)
        elif r < 0.82 or (no_far and r < 0.92):
            x = m + (rng.randint(-2, n + 1) + rng.choice([0.5, 0.25, 0.1, 0.9])) * w
        elif r < 0.92:
            x = m + rng.choice([-1, 1]) * (rng.randint(*far) + rng.choice([0, 0.5, 0.3])) * w
        elif out:
            x = rng.choice(out)
        else:
            x = m
        out.append(float(x) + 0.0)
    return out


def gen(rng) -> dict:
    d = rng.choice([1, 1, 1, 2, 2, 3])
    from_data = rng.random() < 0.2
    far = (8, 120) if d == 1 else ((2, 6) if d == 2 else (1, 3))
    if from_data:
        axes = [gen_axis(rng, form="min", nmax=3) for _ in range(d)]
        for ax in axes:
            ax["form"] = "data"
        nrow = rng.randint(1, 5)
        cols = [axis_values(rng, ax, nrow, no_far=True) for ax in axes]
        if rng.random() < 0.7:
            for c, ax in zip(cols, axes):
                c[rng.randrange(nrow)] = fl(ax["m"])
        rows = [[c[i] for c in cols] for i in range(nrow)]
        pre = {"form": "data", "axes": axes, "data": [[rs(x) for x in r] for r in rows], "align": rng.random() < 0.6}
    else:
        axes = [gen_axis(rng, nmax=4 if d == 1 else 3) for _ in range(d)]
        size = 1
        for ax in axes:
            size *= ax["n"]
        if rng.random() < 0.7:
            dtype, freq = "int64", [rng.choice([0, 0, 1, 2, 5, 7]) for _ in range(size)]
        else:
            dtype, freq = "float64", [rng.choice([0, 0.5, 1.25, 3, 4.75]) for _ in range(size)]
        if not any(freq):
            freq[0] = 5
        pre = {"form": "arrays", "axes": axes, "freq": [rs(x) for x in freq], "dtype": dtype}
    steps = []
    for _ in range(rng.randint(1, 6)):
        if rng.random() < 0.5:
            v = [axis_values(rng, ax, 1, far)[0] for ax in axes]
            wt = rng.choice([1, 1, 2, 0.5])
            steps.append({"t": "fill", "v": [rs(x) for x in v], "w": rs(wt), "wk": "pyint" if isinstance(wt, int) else "pyfloat"})
        else:
            n = rng.choice([0, 1, 2, 3, 5])
            cols = [axis_values(rng, ax, n, far) for ax in axes]
            rows = [[rs(c[i]) for c in cols] for i in range(n)]
            if d == 1 and rng.random() < 0.1:
                rows.insert(rng.randint(0, len(rows)), [None])
            ws = [rs(rng.choice([1, 2, 0.5, 0.25])) for _ in rows] if rng.random() < 0.3 else None
            steps.append({"t": "fill_n", "rows": rows, "ws": ws})
    if rng.random() < 0.5:
        # the requested minimum of every axis itself, first
        steps.insert(0, {"t": "fill", "v": [ax["m"] for ax in axes], "w": "1", "wk": "pyint"})
    return build({"pre": pre, "steps": steps, "w": axes[0]["w"]})


def build(src) -> dict:
    pre = src["pre"]
    d = len(pre["axes"])
    nd = d > 1
    ops = [{"op": "prefilled", "out": 0, "pre": pre}]
    allv = []
    for s in src["steps"]:
        if s["t"] == "fill":
            ops.append({"op": "fill", "h": 0, "v": s["v"] if nd else s["v"][0], "w": s["w"], "wk": s["wk"]})
            allv.append(s["v"])
        elif nd:
            ops.append({"op": "fill_n", "h": 0, "rows": s["rows"], "ws": s["ws"], "wkind": "float64"})
            allv += s["rows"]
        else:
            ops.append({"op": "fill_n", "h": 0, "vs": [r[0] for r in s["rows"]], "ws": s["ws"], "wkind": "float64"})
            allv += [r for r in s["rows"] if r[0] is not None]
    if pre["form"] != "data":
        allv.append([ax["m"] for ax in pre["axes"]])        # the corner the histogram was built from lies in its first cell
    for v in allv:
        ops.append({"op": "find_bin", "h": 0, "v": v if nd else v[0]})
    tags = ["stream:prefilled", f"pre_d:{d}"] + sorted({"pre_form:" + ax["form"] for ax in pre["axes"]})
    tags += sorted({"pre_min:" + ax["kind"] for ax in pre["axes"]})
    for ax in pre["axes"]:
        w, m = fl(ax["w"]), fl(ax["m"])
        if ax["form"] in ("min", "afw_numpy", "afw_static") and round(m / w) * w != m and abs(round(m / w) * w - m) < 1e-9 * w:
            tags.append("pre_min_beside_a_multiple")     # k*w in floating point is not the requested minimum
            break
    if any(s["t"] == "fill" and s["v"] == [ax["m"] for ax in pre["axes"]] for s in src["steps"]):
        tags.append("pre_fills_the_minimum")
    return {"kind": "histn" if nd else "hist1", "fuel": 64, "ops": ops, "tags": tags, "src": src}


def shrink(case):
    src = case["src"]
    for i in range(len(src["steps"]) - 1, -1, -1):
        s2 = copy.deepcopy(src)
        del s2["steps"][i]
        yield build(s2)
    for i, st in enumerate(src["steps"]):
        if st["t"] == "fill_n":
            for j in range(len(st["rows"])):
                s2 = copy.deepcopy(src)
                del s2["steps"][i]["rows"][j]
                if s2["steps"][i]["ws"] is not None:
                    del s2["steps"][i]["ws"][j]
                yield build(s2)
    pre = src["pre"]
    if pre["form"] == "data" and len(pre["data"]) > 1:
        for j in range(len(pre["data"])):
            s2 = copy.deepcopy(src)
            del s2["pre"]["data"][j]
            yield build(s2)
    if pre["form"] == "arrays" and len(pre["axes"]) == 1 and pre["axes"][0]["n"] > 1 and pre["axes"][0]["form"] in ("min", "tmin_shift"):
        s2 = copy.deepcopy(src)
        s2["pre"]["axes"][0]["n"] -= 1
        s2["pre"]["freq"] = s2["pre"]["freq"][:-1]
        yield build(s2)


def neighbours(case):
    """after a difference between model and implementation on a pre-filled start: the same start, followed by the values that
    tell a moved grid from the described one"""
    src = case["src"]
    axes = src["pre"]["axes"]
    cands = []
    for ax in axes:
        w, m, n = fl(ax["w"]), fl(ax["m"]), ax["n"]
        k0 = round(m / w)
        cands.append([m, gen1.nxt(m, True), gen1.nxt(m, False), k0 * w, m + n * w, (k0 + n) * w, m + 0.5 * w, m - 0.5 * w,
                      m + (n + 0.5) * w])
    for j in range(len(cands[0])):
        v = [rs(float(c[j]) + 0.0) for c in cands]
        for t in ("fill", "fill_n"):
            s2 = copy.deepcopy(src)
            if t == "fill":
                s2["steps"] = [{"t": "fill", "v": v, "w": "1", "wk": "pyint"}]
            else:
                s2["steps"] = [{"t": "fill_n", "rows": [v, [ax["m"] for ax in axes]], "ws": None}]
            yield build(s2)
    s2 = copy.deepcopy(src)
    s2["steps"] = []
    yield build(s2)


# ----------------------------------------------------------------------------------------------- the real library

def _mk_axis(ax):
    from physt.binnings import FixedWidthBinning, NumpyBinning, StaticBinning
    form, w, n = ax["form"], fl(ax["w"]), ax["n"]
    if form == "min":
        return FixedWidthBinning(bin_width=w, bin_count=n, min=fl(ax["m"]), adaptive=True)
    if form == "tmin_shift":
        return FixedWidthBinning(bin_width=w, bin_count=n, bin_times_min=ax["t"], bin_shift=fl(ax["s"]), adaptive=True)
    e = [fl(x) for x in ax["edges"]]
    if form == "afw_numpy":
        b = NumpyBinning(e).as_fixed_width()
    elif form == "afw_static":
        b = StaticBinning(np.array([[e[i], e[i + 1]] for i in range(len(e) - 1)])).as_fixed_width()
    else:
        raise KeyError(form)
    if ax.get("via") == "binning":
        b.set_adaptive(True)
    return b


def _start(s, op, log):
    from physt import h, h1
    from physt.histogram1d import Histogram1D
    from physt.histogram_nd import Histogram2D, HistogramND
    pre = op["pre"]
    axes = pre["axes"]
    d = len(axes)
    try:
        if pre["form"] == "data":
            data = np.array([[fl(x) for x in r] for r in pre["data"]], dtype=float)
            kw = {"adaptive": True}
            if not pre["align"]:
                kw["align"] = False
            if d == 1:
                x = h1(data[:, 0], "fixed_width", bin_width=fl(axes[0]["w"]), **kw)
            else:
                x = h(data, "fixed_width", bin_width=[fl(ax["w"]) for ax in axes], **kw)
        else:
            bs = [_mk_axis(ax) for ax in axes]
            f = np.array([fl(v) for v in pre["freq"]], dtype=np.dtype(pre["dtype"])).reshape([ax["n"] for ax in axes])
            if d == 1:
                x = Histogram1D(bs[0], f)
            else:
                x = (Histogram2D if d == 2 else HistogramND)(bs, f)
            if any(ax.get("via") == "hist" for ax in axes):
                x.set_adaptive(True)
        s.set(op["out"], x)
        return "ok"
    except Exception as e:  # a refused start: recorded, the oracle calls it `refused_valid`
        log.append(f"prefilled: {type(e).__name__}: {e}"[:200])
        return impl1.REFUSED


def _run(case, observed=True):
    nd = case["kind"] == "histn"
    step = implnd.step if nd else impl1.step
    snap = implnd.snapn if nd else impl1.snap1
    s = impl1.Store()
    outs, log = [], []
    ret = None

    def state():
        return {"ret": ret, "regs": [None if x is None else snap(x) for x in s.regs], "_sharing": _sharing(s.regs)}
    for op in case["ops"]:
        ret = _start(s, op, log) if op["op"] == "prefilled" else step(s, op, log)
        if observed:
            outs.append(state())
    return (outs, log) if observed else state()


def run_impl(case) -> dict:
    outs, log = _run(case)
    io = {"outs": outs, "log": log}
    if len(case["ops"]) >= 2:
        io["unobserved_outs"] = outs[:-1] + [_run(case, observed=False)]
    return io


# ----------------------------------------------------------------------------------------------- the model

def _axis_json(ax, align=True) -> dict:
    b = {"t": "fixed", "w": ax["w"], "count": ax["n"], "adaptive": True, "align": align, "ire": False, "shift": "0", "tmin": 0}
    if ax["form"] == "tmin_shift":
        b.update(tmin=ax["t"], shift=ax["s"])
    elif ax["form"] == "data":
        b["count"] = 0
    else:
        b["min"] = ax["m"]
    return b


def model_case(case) -> dict:
    pre = case["ops"][0]["pre"]
    nd = case["kind"] == "histn"
    axes = pre["axes"]
    if pre["form"] == "data":
        bj = [_axis_json(ax, pre["align"]) for ax in axes]
        if nd:
            first = [{"op": "empty", "out": 0, "axes": bj, "dtype": "int64"},
                     {"op": "fill_n", "h": 0, "rows": pre["data"], "ws": None, "wkind": "float64"}]
        else:
            first = [{"op": "empty", "out": 0, "binning": bj[0], "dtype": "int64"},
                     {"op": "fill_n", "h": 0, "vs": [r[0] for r in pre["data"]], "ws": None, "wkind": "float64"}]
    else:
        bj = [_axis_json(ax) for ax in axes]
        if nd:
            first = [{"op": "of_arrays", "out": 0, "axes": bj, "freq": pre["freq"], "err2": None, "missed": "0", "dtype": pre["dtype"]}]
        else:
            first = [{"op": "of_arrays", "out": 0, "binning": bj[0], "freq": pre["freq"], "err2": None, "under": "0", "over": "0",
                      "inner": "0", "dtype": pre["dtype"]}]
    return {"kind": case["kind"], "fuel": case.get("fuel", 64), "ops": first + case["ops"][1:]}


def model_outs(case, model_ok):
    """the model's answers lined up with the implementation's (the `data` start takes two model operations)"""
    if case["ops"][0]["pre"]["form"] == "data" and isinstance(model_ok, list):
        return model_ok[1:]
    return model_ok


# ----------------------------------------------------------------------------------------------- the oracle

def _norm(snap, nd):
    """(bins per axis as exact pairs, shape, contents, squared errors, missed slots)"""
    if nd:
        axes = [[(F(l), F(r)) for l, r in b] for b in snap["bins"]]
        return axes, list(snap["shape"]), snap["freq"], snap["err2"], [snap["missed"]]
    bins = [(F(l), F(r)) for l, r in snap["bins"]]
    return [bins], [len(bins)], snap["freq"], snap["err2"], [snap["under"], snap["over"], snap["inner"]]


def _flat(idx, shape):
    k = 0
    for i, n in zip(idx, shape):
        k = k * n + i
    return k


def _locate(bins, lefts, x):
    """index of the half-open bin holding x, or None"""
    i = bisect.bisect_right(lefts, x) - 1
    if 0 <= i < len(bins) and bins[i][0] <= x < bins[i][1]:
        return i
    return None


def _ff(x) -> str:
    return repr(float(x))


def _start_clauses(pre, axes0, snap0, nd) -> list:
    fails = []
    data_cols = None
    if pre["form"] == "data":
        data_cols = [[F(r[j]) for r in pre["data"]] for j in range(len(pre["axes"]))]
    for j, (ax, B) in enumerate(zip(pre["axes"], axes0)):
        w, n, form = F(ax["w"]), ax["n"], ax["form"]
        at = f"axis {j}: " if nd else ""
        if not B:
            fails.append(f"start_count: {at}no bins at the start")
            continue
        if any(B[i][1] != B[i + 1][0] for i in range(len(B) - 1)) or not all(l < r for l, r in B):
            fails.append(f"start_contiguous: {at}the bins at the start are not contiguous and rising")
        if form == "data":
            lo, hi = min(data_cols[j]), max(data_cols[j])
            if not (B[0][0] <= lo < B[0][1]):
                fails.append(f"start_span: {at}the first bin [{_ff(B[0][0])}, {_ff(B[0][1])}) does not hold the smallest datum {_ff(lo)}")
            if not (B[-1][0] <= hi < B[-1][1]):
                fails.append(f"start_span: {at}the last bin [{_ff(B[-1][0])}, {_ff(B[-1][1])}) does not hold the largest datum {_ff(hi)}")
            wf = float(w)
            if pre["align"]:
                k0 = round(float(B[0][0]) / wf)
                exp = [F((k0 + i) * wf) for i in range(len(B) + 1)]
                if exp != [b[0] for b in B] + [B[-1][1]]:
                    fails.append(f"start_off_grid: {at}edges {[_ff(b[0]) for b in B] + [_ff(B[-1][1])]} are not the multiples "
                                 f"{k0}.. of the width {wf}")
            else:
                tol = F(1, 2**46) * max(abs(B[0][0]), abs(B[-1][1]), w)
                if any(abs((r - l) - w) > tol for l, r in B):
                    fails.append(f"start_off_grid: {at}bins are not {wf} wide")
            continue
        m = F(ax["m"])
        if len(B) != n:
            fails.append(f"start_count: {at}{len(B)} bins at the start, {n} asked for")
            continue
        if form == "tmin_shift":
            wf, sf, t = float(w), fl(ax["s"]), ax["t"]
            exp = [F((t + i) * wf + sf) for i in range(n + 1)]
            if exp != [b[0] for b in B] + [B[-1][1]]:
                fails.append(f"start_edges: {at}edges {[_ff(b[0]) for b in B] + [_ff(B[-1][1])]} are not (bin_times_min + i) * "
                             f"{wf} + {sf} for bin_times_min = {t}")
            continue
        if B[0][0] != m:
            what = "the requested minimum" if form == "min" else "the first edge of the bins converted"
            fails.append(f"start_first_edge: {at}the first edge is {_ff(B[0][0])}, {what} is {_ff(m)} (width {_ff(w)}, {n} bins)")
        ref = [F(x) for x in ax["edges"]] if form != "min" else [m + i * w for i in range(n + 1)]
        tol = F(1, 2**(49 if form == "min" else 46)) * max(abs(ref[0]), abs(ref[-1]), w)
        got = [b[0] for b in B] + [B[-1][1]]
        if any(abs(a - b) > tol for a, b in zip(got, ref)):
            fails.append(f"start_grid: {at}edges {[_ff(x) for x in got]} are not minimum + i * width = {[_ff(x) for x in ref]}")
    if pre["form"] == "arrays":
        if [F(x) for x in snap0["freq"]] != [F(x) for x in pre["freq"]]:
            fails.append(f"start_content: contents at the start are {snap0['freq']}, given {pre['freq']}")
    return fails


def oracle(case, io) -> list:
    outs, ops = io["outs"], case["ops"]
    if any(o["ret"] == impl1.REFUSED for o in outs):
        return ["refused_valid: a valid call was refused: " + "; ".join(io["log"][:2])]
    nd = case["kind"] == "histn"
    pre = ops[0]["pre"]
    d = len(pre["axes"])
    fails = []
    snap0 = outs[0]["regs"][0]
    axes0, shape0, f0, e0, _ = _norm(snap0, nd)
    fails += _start_clauses(pre, axes0, snap0, nd)
    if any(not B for B in axes0):
        return fails[:6]
    # what every cell held at the start, by its intervals
    init = {}
    idx = [0] * d
    for pos in range(len(f0)):
        rem = pos
        for a in range(d - 1, -1, -1):
            idx[a] = rem % shape0[a]
            rem //= shape0[a]
        init[tuple(axes0[a][idx[a]] for a in range(d))] = (F(f0[pos]), F(e0[pos]))
    entered = []       # (coordinates, weight); for a `data` start the data are entered points as well
    if pre["form"] == "data":
        entered = [([F(x) for x in r], F(1)) for r in pre["data"]]
        init = {k: (F(0), F(0)) for k in init}
    given = sum((v[0] for v in init.values()), F(0))
    # the first / last edge each axis has to keep as long as no value lies beyond it
    req_first = []
    for ax, B in zip(pre["axes"], axes0):
        req_first.append(F(ax["m"]) if ax["form"] in ("min", "afw_numpy", "afw_static", "tmin_shift") else B[0][0])
    start_last = [B[-1][1] for B in axes0]
    prev_edges = None
    meta0 = None if nd else snap0.get("binning")
    for k, op in enumerate(ops):
        snap = outs[k]["regs"][0]
        axes, shape, fq, e2, missed = _norm(snap, nd)
        lefts = [[b[0] for b in B] for B in axes]
        if op["op"] == "fill":
            entered.append(([F(x) for x in (op["v"] if nd else [op["v"]])], F(op["w"])))
        elif op["op"] == "fill_n":
            rows = op["rows"] if nd else [[v] for v in op["vs"]]
            for j, r in enumerate(rows):
                if all(x is not None for x in r):
                    entered.append(([F(x) for x in r], F(op["ws"][j]) if op["ws"] is not None else F(1)))
        elif op["op"] == "find_bin":
            r = outs[k]["ret"]
            r = r if nd else [r]
            v = [F(x) for x in (op["v"] if nd else [op["v"]])]
            if not (isinstance(r, list) and len(r) == d and all(isinstance(i, int) and 0 <= i < len(B) for i, B in zip(r, axes))):
                fails.append(f"lost_value: find_bin({[_ff(x) for x in v]}) = {outs[k]['ret']}: the point is in no cell")
            elif not all(B[i][0] <= x < B[i][1] for i, B, x in zip(r, axes, v)):
                fails.append(f"inside: find_bin({[_ff(x) for x in v]}) = {outs[k]['ret']}, but the point is not inside that cell")
            continue
        # (e) nothing lost
        tot = given + sum((w for _, w in entered), F(0))
        if F(snap["total"]) != tot:
            fails.append(f"total: total is {snap['total']}, contents given + weight entered is {tot}")
        if any(x != "0" for x in missed):
            fails.append(f"missed_nonzero: underflow / overflow / missed = {missed}")
        for a, B in enumerate(axes):
            at = f"axis {a}: " if nd else ""
            if any(B[i][1] != B[i + 1][0] for i in range(len(B) - 1)) or not all(l < r for l, r in B):
                fails.append(f"not_contiguous: {at}bins are not contiguous and rising")
            # (b) every earlier edge is still an edge
            edges = {b[0] for b in B} | {B[-1][1]}
            if prev_edges is not None:
                gone = sorted(prev_edges[a] - edges)
                if gone:
                    fails.append(f"edge_moved: {at}the earlier edge {_ff(gone[0])} is no longer an edge "
                                 f"(edges now {[_ff(x) for x in sorted(edges)][:8]})")
            # (d) exact span
            xs = [p[a] for p, _ in entered]
            lo = min(xs) if xs else None
            hi = max(xs) if xs else None
            if lo is None or lo >= req_first[a]:
                if B[0][0] != req_first[a]:
                    fails.append(f"span_low: {at}no value below the first edge described ({_ff(req_first[a])}), yet the bins start at {_ff(B[0][0])}")
            elif not (B[0][0] <= lo < B[0][1]):
                fails.append(f"span_low: {at}the first bin [{_ff(B[0][0])}, {_ff(B[0][1])}) does not hold the smallest value {_ff(lo)}")
            if hi is None or hi < start_last[a]:
                if B[-1][1] != start_last[a]:
                    fails.append(f"span_high: {at}no value at or above the last edge at the start ({_ff(start_last[a])}), yet the bins end at {_ff(B[-1][1])}")
            elif not (B[-1][0] <= hi < B[-1][1]):
                fails.append(f"span_high: {at}the last bin [{_ff(B[-1][0])}, {_ff(B[-1][1])}) does not hold the largest value {_ff(hi)}")
        prev_edges = [{b[0] for b in B} | {B[-1][1]} for B in axes]
        # the grid itself (1-D: width and shift as reported never change, edges = (times_min + i) * width + shift)
        if meta0 is not None:
            mt = snap["binning"]
            if mt["w"] != meta0["w"] or mt["shift"] != meta0["shift"]:
                fails.append(f"grid_changed: width / shift were {meta0['w']} / {meta0['shift']}, now {mt['w']} / {mt['shift']}")
            wf, sf = fl(mt["w"]), fl(mt["shift"])
            exp = [F((mt["tmin"] + i) * wf + sf) for i in range(len(axes[0]) + 1)]
            if exp != [b[0] for b in axes[0]] + [axes[0][-1][1]]:
                fails.append("off_grid: the bins are not origin + k*width")
        # (b), (c) contents: what the cell held at the start + the entered points inside its intervals
        exp_f, exp_e = {}, {}
        lost = None
        for p, w in entered:
            ix = [_locate(B, L, x) for B, L, x in zip(axes, lefts, p)]
            if any(i is None for i in ix):
                lost = lost or p
                continue
            pos = _flat(ix, shape)
            exp_f[pos] = exp_f.get(pos, F(0)) + w
            exp_e[pos] = exp_e.get(pos, F(0)) + w * w
        if lost is not None:
            fails.append(f"lost_value: the entered point {[_ff(x) for x in lost]} is in no cell")
        for key, (cf, ce) in init.items():
            ix = [_locate(B, L, iv[0]) for B, L, iv in zip(axes, lefts, key)]
            if any(i is None or B[i] != iv for i, B, iv in zip(ix, axes, key)):
                fails.append(f"detached: the cell {[[_ff(l), _ff(r)] for l, r in key]} of the start (content {cf}) is no longer a cell")
                break
            pos = _flat(ix, shape)
            exp_f[pos] = exp_f.get(pos, F(0)) + cf
            exp_e[pos] = exp_e.get(pos, F(0)) + ce
        else:
            for pos in range(len(fq)):
                if F(fq[pos]) != exp_f.get(pos, F(0)):
                    fails.append(f"content: cell {pos} of shape {shape} holds {fq[pos]}; given at the start + entered inside it: {exp_f.get(pos, F(0))}")
                    break
                if F(e2[pos]) != exp_e.get(pos, F(0)):
                    fails.append(f"errors2: cell {pos} of shape {shape} holds {e2[pos]}; start + squares entered inside it: {exp_e.get(pos, F(0))}")
                    break
        if len(fails) >= 6:
            break
    return fails[:6]


def nontrivial(case, io) -> bool:
    shapes = set()
    for o in io["outs"]:
        r = o["regs"][0] if o["regs"] else None
        if r:
            shapes.add(tuple(r["shape"]) if "shape" in r else len(r["bins"]))
    return len(shapes) >= 2


# ----------------------------------------------------------------------------------------------- small scope, enumerated

def _scope_case(w, k, form, n=2, second_axis=False):
    m = k * w
    if _risky(m, w):
        return None
    ax = {"form": form, "w": rs(w), "n": n, "kind": "kw", "m": rs(m)}
    if form == "afw_numpy":
        e = [m + i * w for i in range(n + 1)]
        weff = e[1] - e[0]
        if not all(a < b for a, b in zip(e, e[1:])) or _risky(m, weff):
            return None
        ax.update(w=rs(weff), edges=[rs(x) for x in e], via="binning")
    wf = fl(ax["w"])
    pts = [m, round(m / wf) * wf, m + n * wf]
    axes = [ax]
    if second_axis:
        axes.append({"form": "min", "w": "1", "n": 1, "kind": "plain", "m": "0"})
    row = lambda x: [rs(float(x) + 0.0)] + (["1/2"] if second_axis else [])
    steps = [{"t": "fill", "v": row(pts[0]), "w": "1", "wk": "pyint"},
             {"t": "fill_n", "rows": [row(pts[1]), row(pts[2])], "ws": None}]
    size = n
    c = build({"pre": {"form": "arrays", "axes": axes, "freq": ["5"] + ["0"] * (size - 1), "dtype": "int64"}, "steps": steps,
               "w": ax["w"]})
    c["tags"] = c["tags"] + ["pre_small_scope"]
    return c


def small_scope(tier) -> list:
    """every minimum k*w of a window, pre-filled, then the minimum, the multiple of the width beside it and the last edge"""
    out = []
    if tier == "thorough":
        for w in (0.1, 0.2, 0.3, 0.7, 1 / 3, 0.6, 1.1, 0.05):
            for k in range(-30, 31):
                for form in ("min", "afw_numpy"):
                    out.append(_scope_case(w, k, form))
                if k % 6 == 0:
                    out.append(_scope_case(w, k, "min", second_axis=True))
    else:
        for w in (0.1, 0.3, 0.7):
            for k in (3, 6, 7, 12, 17, 23):
                out.append(_scope_case(w, k, "min"))
        for k in (6, 7, 12):
            out.append(_scope_case(0.1, k, "min", second_axis=True))
            out.append(_scope_case(0.1, k, "afw_numpy"))
    return [c for c in out if c is not None]

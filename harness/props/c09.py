"""C09 — projections are exact marginals; T; accumulate."""
from __future__ import annotations

import copy
import itertools
from fractions import Fraction

import numpy as np

from .. import gen1, gennd
from ..core import rs
from .basen import HistNProp


def obj_arr(vals, shape):
    a = np.empty(len(vals), dtype=object)
    for i, v in enumerate(vals):
        a[i] = Fraction(v)
    return a.reshape(shape)


def rand_nd_op(rng, d=None, out=0, maxbins=4, names=True, dtype=None):
    d = d or rng.choice([2, 2, 3, 3, 4])
    axes = [gennd.axis_binning(rng, maxbins=maxbins if d < 4 else 3) for _ in range(d)]
    shape = [len(a[1]) for a in axes]
    size = int(np.prod(shape))
    dt = dtype or rng.choice(["int64", "int64", "float64", "int32", "float32"])
    isint = dt.startswith("int")
    f = [rng.choice([0, 0, 1, 2, 3, 5, 8]) if isint else rng.choice([0, 0.5, 1.25, 2, 4.75]) for _ in range(size)]
    e = None if rng.random() < 0.35 else [rng.randint(0, 9) if isint else rng.randint(0, 40) / 4 for _ in range(size)]
    nm = None
    if names and rng.random() < 0.7:
        nm = rng.sample(["x", "y", "z", "t", "a", "b"], d)
    return {"op": "of_arrays", "out": out, "axes": [a[0] for a in axes], "freq": [rs(x) for x in f],
            "err2": None if e is None else [rs(x) for x in e], "missed": rs(rng.randint(0, 4)), "dtype": dt,
            "names": nm, "keep": True}, axes


class C09(HistNProp):
    ID = "C09"
    N_QUICK = 400
    N_THOROUGH = 10000
    RULE = ("ND histograms (d = 2..4, 1-4 bins per axis, asymmetric shapes, arbitrary contents / errors, named or default axes) x "
            "projection onto every kind of axis list (indices or names, any order), a second projection of the result, direct "
            "construction from the kept columns, T and T.T (d = 2), accumulate(axis), and the refused axis lists (empty, duplicate, "
            "out of range, negative, unknown name). Thorough: all non-empty proper subsets in every order for d <= 4. "
            "non-trivial = non-zero contents and at least one axis with > 1 bin dropped; distinct = op-list hash")
    FIELDS = {"bins", "shape", "freq", "err2", "total", "dtype", "names", "ndim"}

    def gen_case(self, rng, k, tier):
        init, axes = rand_nd_op(rng)
        return self.build(rng, init, axes)

    def build(self, rng, init, axes, subset=None):
        d = len(axes)
        ops = [init]
        names = init["names"] or [f"axis{i}" for i in range(d)]
        if subset is None:
            m = rng.randint(1, d - 1)
            subset = rng.sample(range(d), m)
        ref = lambda i: names[i] if rng.random() < 0.4 else i
        ops.append({"op": "projection", "h": 0, "axes": [ref(i) for i in subset], "out": 1})
        kept = sorted(subset)
        nxt = 2
        if len(kept) >= 2:
            sub2 = rng.sample(range(len(kept)), rng.randint(1, len(kept) - 1))
            knames = [names[i] for i in kept]
            ops.append({"op": "projection", "h": 1, "axes": [knames[j] if rng.random() < 0.4 else j for j in sub2], "out": 2})
            # the same final axes directly from the parent
            final = sorted(kept[j] for j in sub2)
            ops.append({"op": "projection", "h": 0, "axes": final, "out": 3})
        if d == 2:
            ops.append({"op": "T", "h": 0, "out": 4})
            ops.append({"op": "T", "h": 4, "out": 5})
        ax = rng.randrange(d)
        ops.append({"op": "accumulate", "h": 0, "axis": names[ax] if rng.random() < 0.3 else ax, "out": 6, "_axis": ax})
        ops.append({"op": "invalid", "what": rng.choice(["proj_none", "proj_dup", "proj_range", "proj_name", "proj_neg", "acc_range"]), "h": 0})
        return {"kind": "histn", "ops": ops, "tags": [f"d:{d}", f"keep:{len(kept)}"], "subset": list(subset)}

    def exhaustive_cases(self, tier):
        if tier != "thorough":
            return
        import random
        rng = random.Random(9)
        for d in (2, 3, 4):
            init, axes = rand_nd_op(rng, d=d, maxbins=3)
            for m in range(1, d):
                for sub in itertools.permutations(range(d), m):
                    c = self.build(rng, init, axes, subset=list(sub))
                    c["tags"].append("exhaustive_axis_lists")
                    yield c

    def shrink_candidates(self, case):
        ops = case["ops"]
        for k in range(len(ops) - 1, 1, -1):
            if any(o.get("h") == ops[k].get("out") for o in ops[k + 1:] if "out" in ops[k]):
                continue
            c = copy.deepcopy(case)
            del c["ops"][k]
            yield c

    def oracle(self, case, io):
        outs, ops = io["outs"], case["ops"]
        fails = []
        if outs[0]["ret"] == "REFUSED":
            return ["refused_valid: setup refused: " + "; ".join(io["log"][:2])]
        src = outs[0]["regs"][0]
        d = src["ndim"]
        F = obj_arr(src["freq"], src["shape"])
        E = obj_arr(src["err2"], src["shape"])
        names = src["names"]

        def resolve(a, nm):
            return nm.index(a) if isinstance(a, str) else a

        for k, op in enumerate(ops):
            ret = outs[k]["ret"]
            regs = outs[k]["regs"]
            if regs[0] != src:
                fails.append(f"source_modified: step {k} ({op['op']}) modified the parent")
            if op["op"] == "invalid":
                if ret != "REFUSED":
                    fails.append(f"accepted_invalid: {op['what']} accepted")
                continue
            if ret == "REFUSED":
                fails.append(f"refused_valid: {op} refused: " + "; ".join(io["log"][:2]))
                continue
            if op["op"] == "projection" and op["h"] == 0:
                axs = sorted(resolve(a, names) for a in op["axes"])
                drop = tuple(i for i in range(d) if i not in axs)
                r = regs[op["out"]]
                ef = F.sum(axis=drop) if drop else F
                ee = E.sum(axis=drop) if drop else E
                if [Fraction(x) for x in r["freq"]] != list(np.asarray(ef, dtype=object).ravel()):
                    fails.append(f"marginal: projection{tuple(op['axes'])} contents {r['freq']} are not the sums over the dropped axes")
                if [Fraction(x) for x in r["err2"]] != list(np.asarray(ee, dtype=object).ravel()):
                    fails.append(f"marginal_err2: projection{tuple(op['axes'])} squared errors are not the sums over the dropped axes")
                if r["bins"] != [src["bins"][i] for i in axs]:
                    fails.append(f"proj_bins: projection{tuple(op['axes'])} bins are not those of axes {axs} in original order")
                if r["names"] != [names[i] for i in axs]:
                    fails.append(f"proj_names: projection{tuple(op['axes'])} names {r['names']}, expected {[names[i] for i in axs]}")
                if Fraction(r["total"]) != Fraction(src["total"]):
                    fails.append("proj_total: total changed")
                if r["ndim"] != len(axs):
                    fails.append("proj_ndim")
            if op["op"] == "projection" and op["h"] == 1 and len(regs) > 3 and regs[3] is not None:
                pass
            if op["op"] == "T":
                pass
            if op["op"] == "accumulate":
                ax = op["_axis"]
                r = regs[op["out"]]
                cs = np.cumsum(F, axis=ax)
                if [Fraction(x) for x in r["freq"]] != list(np.asarray(cs, dtype=object).ravel()):
                    fails.append(f"accumulate: accumulate({op['axis']}) is not the running sum along axis {ax}")
                if r["bins"] != src["bins"] or r["names"] != src["names"]:
                    fails.append("accumulate_bins: accumulate changed bins or names")
        last = outs[-1]["regs"]
        if len(last) > 3 and last[2] is not None and last[3] is not None:
            a, b = last[2], last[3]
            for f in ("bins", "names", "freq", "err2", "shape"):
                if a[f] != b[f] and not (f in ("freq", "err2") and [Fraction(x) for x in a[f]] == [Fraction(x) for x in b[f]]):
                    fails.append(f"compose: projecting in two steps differs from projecting once in {f}: {a[f]} vs {b[f]}")
        if len(last) > 5 and last[4] is not None and last[5] is not None:
            t, tt = last[4], last[5]
            if t["bins"] != src["bins"][::-1] or t["names"] != src["names"][::-1]:
                fails.append("T_bins_names: T does not swap bins and names")
            if [Fraction(x) for x in t["freq"]] != list(np.asarray(F.T, dtype=object).ravel()) or \
               [Fraction(x) for x in t["err2"]] != list(np.asarray(E.T, dtype=object).ravel()):
                fails.append("T_contents: T does not transpose contents / errors")
            for f in ("bins", "names", "freq", "err2", "shape", "missed", "dtype"):
                if tt[f] != src[f]:
                    fails.append(f"T_involution: T.T differs from the original in {f}: {tt[f]} vs {src[f]}")
            if t["missed"] != src["missed"]:
                fails.append(f"T_missed: T changed missed from {src['missed']} to {t['missed']}")
        return fails[:6]

    def nontrivial(self, case, io):
        try:
            s = io["outs"][0]["regs"][0]
            return any(Fraction(x) != 0 for x in s["freq"]) and any(n > 1 for n in s["shape"])
        except Exception:
            return False


PROP = C09()

"""C09 — projections are exact marginals; T; accumulate."""
from __future__ import annotations

import copy
import itertools
from fractions import Fraction

import numpy as np

from .. import gen1, gennd
from ..core import rs
from .basen import HistNProp


def obj_arr(vals, shape):
    a = np.empty(len(vals), dtype=object)
    for i, v in enumerate(vals):
        a[i] = Fraction(v)
    return a.reshape(shape)


def rand_nd_op(rng, d=None, out=0, maxbins=4, names=True, dtype=None):
    d = d or rng.choice([2, 2, 3, 3, 4])
    axes = [gennd.axis_binning(rng, maxbins=maxbins if d < 4 else 3) for _ in range(d)]
    shape = [len(a[1]) for a in axes]
    size = int(np.prod(shape))
    dt = dtype or rng.choice(["int64", "int64", "float64", "int32", "float32"])
    isint = dt.startswith("int")
    f = [rng.choice([0, 0, 1, 2, 3, 5, 8]) if isint else rng.choice([0, 0.5, 1.25, 2, 4.75]) for _ in range(size)]
    e = None if rng.random() < 0.35 else [rng.randint(0, 9) if isint else rng.randint(0, 40) / 4 for _ in range(size)]
    nm = None
    if names and rng.random() < 0.7:
        nm = rng.sample(["x", "y", "z", "t", "a", "b"], d)
    return {"op": "of_arrays", "out": out, "axes": [a[0] for a in axes], "freq": [rs(x) for x in f],
            "err2": None if e is None else [rs(x) for x in e], "missed": rs(rng.randint(0, 4)), "dtype": dt,
            "names": nm, "keep": True}, axes


# ------------------------------------------------------------------ narrow content types, contents near the type's limits

INT_LIMIT = {"int16": 2**15 - 1, "int32": 2**31 - 1}
# float types: contents are integer multiples of `unit` with coefficients adding up to at most `coef` over the whole
# histogram, so every partial sum (marginal, running sum, total) is exactly representable and inside the type's range
FLOAT_GRID = {"float16": (2**5, 2**11 - 1), "float32": (2**104, 2**24 - 1)}
WIDE = {"int16": "int64", "int32": "int64", "float16": "float64", "float32": "float64"}


def near_limit_ints(rng, lim, size):
    """non-negative integers, each inside the type's range, most of them in its upper part: sums of two or more of them
    along any axis leave the range"""
    def one():
        r = rng.random()
        if r < 0.3:
            return lim - rng.randint(0, 3)
        if r < 0.6:
            return lim - rng.randint(0, lim // 4)
        if r < 0.85:
            return rng.randint(lim // 3, lim)
        return rng.choice([0, 1, 2, 5])
    return [one() for _ in range(size)]


def near_limit_floats(rng, dt, size, longest):
    # the budget leaves room for the total of the running sums along the longest axis (a float type adds in its own
    # precision, and what an overflowing float sum gives is not the property's business)
    unit, coef = FLOAT_GRID[dt]
    q = coef // (size * longest)
    return [unit * rng.randint(q // 2, q) for _ in range(size)]


def near_limit_contents(rng, dt, size, longest):
    if dt in INT_LIMIT:
        return near_limit_ints(rng, INT_LIMIT[dt], size)
    return near_limit_floats(rng, dt, size, longest)


def rand_narrow_ops(rng, d=None):
    """setup ops of a parent stored in a narrow type (directly from arrays of that type, or converted by set_dtype / the
    dtype property) whose contents and squared errors are near the type's limits; returns (setup ops, axes)"""
    d = d or rng.choice([2, 2, 3, 3, 4])
    axes = [gennd.axis_binning(rng, maxbins=3 if d < 4 else 2) for _ in range(d)]
    shape = [len(a[1]) for a in axes]
    size = int(np.prod(shape))
    dt = rng.choice(["int16", "int16", "int16", "int32", "int32", "int32", "float16", "float32"])
    f = near_limit_contents(rng, dt, size, max(shape))
    e = None if rng.random() < 0.4 else near_limit_contents(rng, dt, size, max(shape))
    nm = rng.sample(["x", "y", "z", "t", "a", "b"], d) if rng.random() < 0.7 else None
    route = rng.choice(["array", "array", "set_dtype", "dtype_property"])
    init = {"op": "of_arrays", "out": 0, "axes": [a[0] for a in axes], "freq": [rs(x) for x in f],
            "err2": None if e is None else [rs(x) for x in e], "missed": rs(rng.randint(0, 4)),
            "dtype": dt if route == "array" else WIDE[dt], "names": nm, "keep": True}
    setup = [init]
    if route != "array":
        setup.append({"op": "set_dtype", "h": 0, "dtype": dt, "via_property": route == "dtype_property"})
    return setup, axes, [f"narrow:{dt}", f"narrow_route:{route}"]


# ------------------------------------------------------------------ axis references and axis lists

def spell(rng, i, names):
    """one of the legitimate ways to refer to axis i (physt takes no negative indices)"""
    return names[i] if rng.random() < 0.5 else i


def bad_axis(rng, names, d, custom):
    """a reference to an axis the histogram does not have"""
    i = rng.randrange(d)
    pool = [d, d, d + rng.randint(1, 3), -1, -1, -d, -(d + 1), "no_such_axis", f"axis{d}", names[i].upper(),
            names[i] + " ", " " + names[i], names[i] * 2, str(i), ""]
    if custom:
        pool += [f"axis{i}", f"axis{i}"]         # the default name of an existing axis that was given another name
    while True:
        a = rng.choice(pool)
        if not (isinstance(a, str) and a in names):
            return a


def bad_axis_list(rng, names, d, custom):
    """an axis list projection must refuse: empty, naming one axis twice (in the same or in different spellings, anywhere
    in the list), or containing an axis the histogram does not have; returns (list, kind)"""
    r = rng.random()
    if r < 0.1:
        return [], "empty"
    if r < 0.65:
        base = rng.sample(range(d), rng.randint(1, d))
        j = rng.choice(base)
        refs = [spell(rng, i, names) for i in base]
        first = refs[base.index(j)]
        if rng.random() < 0.65:
            again = j if isinstance(first, str) else names[j]      # the other spelling
            kind = "dup_mixed_spelling"
        else:
            again = first
            kind = "dup_same_spelling"
        refs.insert(rng.randint(0, len(refs)), again)
        return refs, kind
    base = rng.sample(range(d), rng.randint(0, d - 1))
    refs = [spell(rng, i, names) for i in base]
    b = bad_axis(rng, names, d, custom)
    refs.insert(rng.randint(0, len(refs)), b)
    return refs, "unknown_name" if isinstance(b, str) else ("negative" if b < 0 else "out_of_range")


def axis_list_problem(axes, names, d):
    """why the property says this axis list has to be refused (None if it is a proper list): computed from the histogram's
    public axis names and dimension only"""
    if len(axes) == 0:
        return "the list is empty"
    seen = {}
    for a in axes:
        if isinstance(a, str):
            if a not in names:
                return f"there is no axis named {a!r}"
            i = names.index(a)
        else:
            if not (0 <= a < d):
                return f"there is no axis {a}"
            i = a
        if i in seen:
            return f"{seen[i]!r} and {a!r} are the same axis"
        seen[i] = a
    return None


class C09(HistNProp):
    ID = "C09"
    N_QUICK = 400
    N_THOROUGH = 10000
    RULE = ("ND histograms (d = 2..4, 1-4 bins per axis, asymmetric shapes, arbitrary contents / errors, named or default axes) x "
            "projection onto every kind of axis list (indices or names, any order), a second projection of the result, direct "
            "construction from the kept columns, T and T.T (d = 2), accumulate(axis), and the refused axis lists (empty, duplicate, "
            "out of range, negative, unknown name). Thorough: all non-empty proper subsets in every order for d <= 4. "
            "Refusals in every spelling (every case one, every 4th case four more, at any position of the history, on the parent "
            "and on its 2-d / 3-d projection): lists naming one axis twice by index + name, name + index or the same way twice, "
            "inside longer lists (up to d + 1 entries), lists with an axis the histogram does not have (index >= d, negative, "
            "unknown / empty / differently cased name, the default name of a renamed axis, a digit string), the empty list, and "
            "the one-axis calls accumulate / select / merge_bins(axis=) / partial_normalize with such an axis; the oracle decides "
            "from the axis names and the dimension alone whether a list has to be refused. "
            "Narrow content types (every 8th case, every 2nd case of the failing-input search, and as neighbours of a "
            "disagreeing case): int16 / int32 / float16 / float32 parents built from arrays of that type or converted by "
            "set_dtype / the dtype property, contents and squared errors near the type's limits, so that marginals and running "
            "sums of the integer types exceed the parent type's range (float contents lie on a grid on which all sums are exact "
            "and in range); expected values are sums of python Fractions. "
            "non-trivial = non-zero contents and at least one axis with > 1 bin dropped; distinct = op-list hash")
    FIELDS = {"bins", "shape", "freq", "err2", "total", "dtype", "names", "ndim"}

    def gen_case(self, rng, k, tier):
        narrow = (k % 8 == 3) or (tier == "search" and k % 2 == 1)
        if narrow:
            setup, axes, tags = rand_narrow_ops(rng)
        else:
            init, axes = rand_nd_op(rng)
            setup, tags = [init], []
        return self.build(rng, setup, axes, tags=tags, many_refusals=(k % 4 == 1))

    def build(self, rng, setup, axes, subset=None, tags=(), many_refusals=False):
        if isinstance(setup, dict):
            setup = [setup]
        init = setup[0]
        d = len(axes)
        ops = list(setup)
        custom = init["names"] is not None
        names = init["names"] or [f"axis{i}" for i in range(d)]
        if subset is None:
            m = rng.randint(1, d - 1)
            subset = rng.sample(range(d), m)
        ref = lambda i: names[i] if rng.random() < 0.4 else i
        ops.append({"op": "projection", "h": 0, "axes": [ref(i) for i in subset], "out": 1})
        kept = sorted(subset)
        if len(kept) >= 2:
            sub2 = rng.sample(range(len(kept)), rng.randint(1, len(kept) - 1))
            knames = [names[i] for i in kept]
            ops.append({"op": "projection", "h": 1, "axes": [knames[j] if rng.random() < 0.4 else j for j in sub2], "out": 2})
            # the same final axes directly from the parent
            final = sorted(kept[j] for j in sub2)
            ops.append({"op": "projection", "h": 0, "axes": final, "out": 3})
        if d == 2:
            ops.append({"op": "T", "h": 0, "out": 4})
            ops.append({"op": "T", "h": 4, "out": 5})
        ax = rng.randrange(d)
        ops.append({"op": "accumulate", "h": 0, "axis": names[ax] if rng.random() < 0.3 else ax, "out": 6, "_axis": ax})
        tags = list(tags) + [f"d:{d}", f"keep:{len(kept)}"]
        # --- calls that have to be refused
        if rng.random() < 0.25:
            what = rng.choice(["proj_none", "proj_dup", "proj_range", "proj_name", "proj_neg", "acc_range"])
            ops.append({"op": "invalid", "what": what, "h": 0})
            n_ref = 0
        else:
            n_ref = 1
        if many_refusals:
            n_ref += 4
            tags.append("refusal_stream")
        for _ in range(n_ref):
            r = rng.random()
            if r < 0.15 and len(kept) >= 2:
                # on the projection (register 1, a 2-d / 3-d histogram with the kept axes' names)
                knames = [names[i] for i in kept]
                lst, kind = bad_axis_list(rng, knames, len(kept), custom)
                op = {"op": "projection", "h": 1, "axes": lst, "out": 7, "expect": "refused"}
                lo = next(i for i, o in enumerate(ops) if o.get("out") == 1) + 1
                tags.append("refuse_on_projection")
            elif r < 0.7:
                lst, kind = bad_axis_list(rng, names, d, custom)
                op = {"op": "projection", "h": 0, "axes": lst, "out": 7, "expect": "refused"}
                lo = len(setup)
            else:
                b = bad_axis(rng, names, d, custom)
                call = rng.choice(["accumulate", "select", "merge"] + (["partial_normalize"] if d == 2 else []))
                op = {"op": call, "h": 0, "axis": b, "out": 8, "expect": "refused"}
                if call == "select":
                    op["index"] = 0
                if call == "merge":
                    op["amount"] = 1
                kind = f"{call}_bad_axis"
                lo = len(setup)
            tags.append(f"refuse:{kind}")
            ops.insert(rng.randint(lo, len(ops)), op)        # anywhere in the history
        return {"kind": "histn", "ops": ops, "tags": tags, "subset": list(subset), "setup": len(setup)}

    def exhaustive_cases(self, tier):
        if tier != "thorough":
            return
        import random
        rng = random.Random(9)
        for d in (2, 3, 4):
            init, axes = rand_nd_op(rng, d=d, maxbins=3)
            for m in range(1, d):
                for sub in itertools.permutations(range(d), m):
                    c = self.build(rng, init, axes, subset=list(sub))
                    c["tags"].append("exhaustive_axis_lists")
                    yield c

    def neighbours(self, case):
        """the same history on a parent stored as int16 / int32 with every bin near the type's maximum (marginals and
        running sums then exceed the parent type's range), directly and through set_dtype"""
        ops = case["ops"]
        ns = case.get("setup", 1)
        if not ops or ops[0].get("op") != "of_arrays":
            return
        for dt, lim in INT_LIMIT.items():
            for variant in range(3):
                def near(vals, shift):
                    out = []
                    for i, v in enumerate(vals):
                        q = int(Fraction(v))
                        out.append(rs(lim - ((7 * q + 3 * i + shift) % 11) * (1 if variant == 0 else lim // 37)))
                    return out
                c = copy.deepcopy(case)
                init = c["ops"][0]
                init["freq"] = near(init["freq"], 0)
                if init.get("err2") is not None:
                    init["err2"] = near(init["err2"], 5)
                rest = [o for o in c["ops"][ns:]]
                if variant == 2:
                    init["dtype"] = "int64"
                    c["ops"] = [init, {"op": "set_dtype", "h": 0, "dtype": dt}] + rest
                else:
                    init["dtype"] = dt
                    c["ops"] = [init] + rest
                c["setup"] = len(c["ops"]) - len(rest)
                c["tags"] = list(c.get("tags", [])) + [f"narrow:{dt}", "neighbour"]
                yield c

    def shrink_candidates(self, case):
        ops = case["ops"]
        ns = case.get("setup", 1)
        for k in range(len(ops) - 1, ns - 1, -1):
            if "out" in ops[k] and any(o.get("h") == ops[k]["out"] for o in ops[k + 1:]):
                continue
            c = copy.deepcopy(case)
            del c["ops"][k]
            yield c
        for k in range(ns, len(ops)):
            if ops[k]["op"] == "projection":
                for j in range(len(ops[k]["axes"])):
                    c = copy.deepcopy(case)
                    del c["ops"][k]["axes"][j]
                    yield c

    def tags(self, case, io):
        t = super().tags(case, io)
        try:
            src = io["outs"][case.get("setup", 1) - 1]["regs"][0]
            lim = self.DTYPE_LIMITS.get(src["dtype"])
            if lim is not None and src["dtype"] != "int64":
                F = obj_arr(src["freq"], src["shape"])
                if any(x > lim for ax in range(src["ndim"]) for x in np.asarray(F.sum(axis=ax), dtype=object).ravel()):
                    t.append("marginal_exceeds_parent_dtype_range")
        except Exception:
            pass
        return t

    def oracle(self, case, io):
        outs, ops = io["outs"], case["ops"]
        ns = case.get("setup", 1)
        fails = []
        if outs[0]["ret"] == "REFUSED":
            return ["refused_valid: setup refused: " + "; ".join(io["log"][:2])]
        src = outs[ns - 1]["regs"][0]       # the parent as it is after the setup ops (construction, change of content type)
        d = src["ndim"]
        F = obj_arr(src["freq"], src["shape"])
        E = obj_arr(src["err2"], src["shape"])

        def resolve(a, nm):
            return nm.index(a) if isinstance(a, str) else a

        def flat(a):
            return list(np.asarray(a, dtype=object).ravel())

        for k, op in enumerate(ops):
            if k < ns:
                continue
            ret = outs[k]["ret"]
            regs = outs[k]["regs"]
            before = outs[k - 1]["regs"]
            if regs[0] != src:
                fails.append(f"source_modified: step {k} ({op['op']}) modified the parent")
            if op["op"] == "invalid":
                if ret != "REFUSED":
                    fails.append(f"accepted_invalid: {op['what']} accepted")
                continue
            # the histogram the call is made on, as observed before the call
            par = before[op["h"]] if isinstance(op.get("h"), int) and op["h"] < len(before) else None
            if par is None:
                continue
            if op["op"] in ("projection", "accumulate", "select", "merge", "partial_normalize"):
                lst = op["axes"] if op["op"] == "projection" else [op["axis"]]
                why = axis_list_problem(lst, par["names"], par["ndim"])
                if why is not None:
                    if ret != "REFUSED":
                        got = regs[op["out"]] if op.get("out", 10**6) < len(regs) else None
                        what = "" if not got else f" and returned a {got['ndim']}-d histogram over {got['names']}"
                        call = f"projection{tuple(lst)}" if op["op"] == "projection" else f"{op['op']}(axis={lst[0]!r})"
                        fails.append(f"accepted_invalid: {call} of a {par['ndim']}-d histogram with axes {par['names']} was "
                                     f"accepted{what} although {why}")
                    if regs[op["h"]] != par:
                        fails.append(f"refused_modified: the refused call {op['op']} at step {k} changed the histogram")
                    continue
                if op["op"] in ("select", "merge", "partial_normalize"):
                    continue        # with an existing axis: other properties' business
            if ret == "REFUSED":
                fails.append(f"refused_valid: {op} of the {par['dtype']} histogram {par['freq']} (shape {par['shape']}, axes "
                             f"{par['names']}) refused: " + "; ".join(io["log"][:2]))
                continue
            if op["op"] == "projection":
                pn, pd = par["names"], par["ndim"]
                PF = obj_arr(par["freq"], par["shape"])
                PE = obj_arr(par["err2"], par["shape"])
                axs = sorted(resolve(a, pn) for a in op["axes"])
                drop = tuple(i for i in range(pd) if i not in axs)
                r = regs[op["out"]]
                ef = PF.sum(axis=drop) if drop else PF
                ee = PE.sum(axis=drop) if drop else PE
                if [Fraction(x) for x in r["freq"]] != flat(ef):
                    fails.append(f"marginal: projection{tuple(op['axes'])} of the {par['dtype']} histogram {par['freq']} (shape "
                                 f"{par['shape']}): contents {r['freq']} are not the sums over the dropped axes {[str(x) for x in flat(ef)]}")
                if [Fraction(x) for x in r["err2"]] != flat(ee):
                    fails.append(f"marginal_err2: projection{tuple(op['axes'])} squared errors {r['err2']} are not the sums over "
                                 f"the dropped axes {[str(x) for x in flat(ee)]}")
                if r["bins"] != [par["bins"][i] for i in axs]:
                    fails.append(f"proj_bins: projection{tuple(op['axes'])} bins are not those of axes {axs} in original order")
                if r["names"] != [pn[i] for i in axs]:
                    fails.append(f"proj_names: projection{tuple(op['axes'])} names {r['names']}, expected {[pn[i] for i in axs]}")
                if Fraction(r["total"]) != Fraction(par["total"]):
                    fails.append(f"proj_total: total changed from {par['total']} to {r['total']}")
                if r["ndim"] != len(axs):
                    fails.append("proj_ndim")
            if op["op"] == "accumulate" and op["h"] == 0:
                ax = resolve(op["axis"], src["names"])
                r = regs[op["out"]]
                cs = np.cumsum(F, axis=ax)
                got = [Fraction(x) for x in r["freq"]]
                if got != flat(cs):
                    fails.append(f"accumulate: accumulate({op['axis']!r}) of the {src['dtype']} histogram {src['freq']} (shape "
                                 f"{src['shape']}) gives {r['freq']}, not the running sums along axis {ax} {[str(x) for x in flat(cs)]}")
                elif r["shape"] == src["shape"]:
                    # last cumulative entry = marginal over that axis
                    lastslice = flat(np.take(obj_arr(r["freq"], r["shape"]), -1, axis=ax))
                    if lastslice != flat(F.sum(axis=ax)):
                        fails.append(f"accumulate_last: the last entries of accumulate({op['axis']!r}) are not the marginal over axis {ax}")
                if r["bins"] != src["bins"] or r["names"] != src["names"]:
                    fails.append("accumulate_bins: accumulate changed bins or names")
        last = outs[-1]["regs"]
        if len(last) > 3 and last[2] is not None and last[3] is not None:
            a, b = last[2], last[3]
            for f in ("bins", "names", "freq", "err2", "shape"):
                if a[f] != b[f] and not (f in ("freq", "err2") and [Fraction(x) for x in a[f]] == [Fraction(x) for x in b[f]]):
                    fails.append(f"compose: projecting in two steps differs from projecting once in {f}: {a[f]} vs {b[f]}")
        if len(last) > 5 and last[4] is not None and last[5] is not None:
            t, tt = last[4], last[5]
            if t["bins"] != src["bins"][::-1] or t["names"] != src["names"][::-1]:
                fails.append("T_bins_names: T does not swap bins and names")
            if [Fraction(x) for x in t["freq"]] != list(np.asarray(F.T, dtype=object).ravel()) or \
               [Fraction(x) for x in t["err2"]] != list(np.asarray(E.T, dtype=object).ravel()):
                fails.append("T_contents: T does not transpose contents / errors")
            for f in ("bins", "names", "freq", "err2", "shape", "missed", "dtype"):
                if tt[f] != src[f]:
                    fails.append(f"T_involution: T.T differs from the original in {f}: {tt[f]} vs {src[f]}")
            if t["missed"] != src["missed"]:
                fails.append(f"T_missed: T changed missed from {src['missed']} to {t['missed']}")
        return fails[:6]

    def nontrivial(self, case, io):
        try:
            s = io["outs"][case.get("setup", 1) - 1]["regs"][0]
            return any(Fraction(x) != 0 for x in s["freq"]) and any(n > 1 for n in s["shape"])
        except Exception:
            return False


PROP = C09()

"""C09 — projections are exact marginals; T; accumulate."""
from __future__ import annotations

import copy
import itertools
from fractions import Fraction

import numpy as np

from .. import gen1, gennd
from ..core import rs
from .basen import HistNProp


def obj_arr(vals, shape):
    a = np.empty(len(vals), dtype=object)
    for i, v in enumerate(vals):
        a[i] = Fraction(v)
    return a.reshape(shape)


def rand_nd_op(rng, d=None, out=0, maxbins=4, names=True, dtype=None):
    d = d or rng.choice([2, 2, 3, 3, 4])
    axes = [gennd.axis_binning(rng, maxbins=maxbins if d < 4 else 3) for _ in range(d)]
    shape = [len(a[1]) for a in axes]
    size = int(np.prod(shape))
    dt = dtype or rng.choice(["int64", "int64", "float64", "int32", "float32"])
    isint = dt.startswith("int")
    f = [rng.choice([0, 0, 1, 2, 3, 5, 8]) if isint else rng.choice([0, 0.5, 1.25, 2, 4.75]) for _ in range(size)]
    e = None if rng.random() < 0.35 else [rng.randint(0, 9) if isint else rng.randint(0, 40) / 4 for _ in range(size)]
    nm = None
    if names and rng.random() < 0.7:
        nm = rng.sample(["x", "y", "z", "t", "a", "b"], d)
    return {"op": "of_arrays", "out": out, "axes": [a[0] for a in axes], "freq": [rs(x) for x in f],
            "err2": None if e is None else [rs(x) for x in e], "missed": rs(rng.randint(0, 4)), "dtype": dt,
            "names": nm, "keep": True}, axes


# ------------------------------------------------------------------ narrow content types, contents near the type's limits

INT_LIMIT = {"int16": 2**15 - 1, "int32": 2**31 - 1}
# float types: contents are integer multiples of `unit` with coefficients adding up to at most `coef` over the whole
# histogram, so every partial sum (marginal, running sum, total) is exactly representable and inside the type's range
FLOAT_GRID = {"float16": (2**5, 2**11 - 1), "float32": (2**104, 2**24 - 1)}
WIDE = {"int16": "int64", "int32": "int64", "float16": "float64", "float32": "float64"}


def near_limit_ints(rng, lim, size):
    """non-negative integers, each inside the type's range, most of them in its upper part: sums of two or more of them
    along any axis leave the range"""
    def one():
        r = rng.random()
        if r < 0.3:
            return lim - rng.randint(0, 3)
        if r < 0.6:
            return lim - rng.randint(0, lim // 4)
        if r < 0.85:
            return rng.randint(lim // 3, lim)
        return rng.choice([0, 1, 2, 5])
    return [one() for _ in range(size)]


def near_limit_floats(rng, dt, size, longest):
    # the budget leaves room for the total of the running sums along the longest axis (a float type adds in its own
    # precision, and what an overflowing float sum gives is not the property's business)
    unit, coef = FLOAT_GRID[dt]
    q = coef // (size * longest)
    return [unit * rng.randint(q // 2, q) for _ in range(size)]


def near_limit_contents(rng, dt, size, longest):
    if dt in INT_LIMIT:
        return near_limit_ints(rng, INT_LIMIT[dt], size)
    return near_limit_floats(rng, dt, size, longest)


def rand_narrow_ops(rng, d=None):
    """setup ops of a parent stored in a narrow type (directly from arrays of that type, or converted by set_dtype / the
    dtype property) whose contents and squared errors are near the type's limits; returns (setup ops, axes)"""
    d = d or rng.choice([2, 2, 3, 3, 4])
    axes = [gennd.axis_binning(rng, maxbins=3 if d < 4 else 2) for _ in range(d)]
    shape = [len(a[1]) for a in axes]
    size = int(np.prod(shape))
    dt = rng.choice(["int16", "int16", "int16", "int32", "int32", "int32", "float16", "float32"])
    f = near_limit_contents(rng, dt, size, max(shape))
    e = None if rng.random() < 0.4 else near_limit_contents(rng, dt, size, max(shape))
    nm = rng.sample(["x", "y", "z", "t", "a", "b"], d) if rng.random() < 0.7 else None
    route = rng.choice(["array", "array", "set_dtype", "dtype_property"])
    init = {"op": "of_arrays", "out": 0, "axes": [a[0] for a in axes], "freq": [rs(x) for x in f],
            "err2": None if e is None else [rs(x) for x in e], "missed": rs(rng.randint(0, 4)),
            "dtype": dt if route == "array" else WIDE[dt], "names": nm, "keep": True}
    setup = [init]
    if route != "array":
        setup.append({"op": "set_dtype", "h": 0, "dtype": dt, "via_property": route == "dtype_property"})
    return setup, axes, [f"narrow:{dt}", f"narrow_route:{route}"]


# ------------------------------------------------------------------ integers beyond 2**53 (and their neighbours)
#
# int64 holds every integer below 2**63 exactly, float64 only those below 2**53 (and the even / 4-fold / ... ones above):
# contents and -- much more easily, being squares -- squared errors of integer histograms beyond 2**53 must still be summed
# exactly by projection / accumulate / total.  All numbers of these streams travel as exact integer strings (core.rs of a
# python int; implnd.arr_exact builds the arrays from python ints; snapshots use core.nrs on the numpy integers), nothing
# goes through a float on the way.

TWO53 = 2**53
I64MAX = 2**63 - 1
BIG_SPECIALS = [2**60 + 3, 2**61 + 1, 2**60 + 2**8 + 1, 2**59 + 5, 2**62 - 1, 2**58 + 2**4 + 1, 10**18 + 9]
BIG_ROUND = [10**16 + 1, (10**8 + 1)**2, (3 * 10**8 + 7)**2, 2**54 + 1, 2**55 + 3, 2**56 - 1, 2**57 + 2**3 + 1, 10**17 + 3]
BIG_FACTORS = [10**8 + 1, 10**8 + 7, 94906267, 2**27 + 1, 3 * 10**8 + 1, 2**28 + 3, 10**9 + 7, 2**31 - 1]
BIG_WEIGHTS = [10**8 + 1, 3 * 10**8 + 7, 94906267, 2**27 + 1, 2**28 + 3, 4 * 10**8 + 9, 123456789, 5 * 10**8 - 1]
BIG_ROUTES = ["explicit"] * 6 + ["scaled"] * 4 + ["filled"] * 3 + ["uint64"] * 2 + ["f64_grid"] * 2 + ["f32_rounded"] * 2
ENABLE_BEYOND53 = True


def big_ints(rng, size, budget):
    """`size` non-negative integers adding up to at most `budget` (< 2**63): up to two very large cells, most of the others
    odd numbers beyond 2**53 (not representable in float64), a few small ones and zeros"""
    vals = [None] * size
    rest = budget
    order = list(range(size))
    rng.shuffle(order)
    for i in order[:rng.choice([0, 1, 1, 2])]:
        cands = [v for v in BIG_SPECIALS if v <= rest // 2]
        if cands:
            vals[i] = rng.choice(cands)
            rest -= vals[i]
    cap = rest // size
    for i in range(size):
        if vals[i] is not None:
            continue
        r = rng.random()
        v = None
        if cap > TWO53 + 2**11:
            if r < 0.35:
                v = TWO53 + rng.choice([1, 1, 3, 5, 7, 2**10 + 1, 2 * rng.randint(0, 1000) + 1])
            elif r < 0.6:
                v = rng.randint(TWO53, cap) | 1
                v = v if v <= cap else v - 2
            elif r < 0.75:
                cands = [x for x in BIG_ROUND if x <= cap]
                v = rng.choice(cands) if cands else TWO53 + 1
        if v is None:
            v = rng.choice([0, 0, 1, 2, 5, 2**31, 2**52 + 1, 2**53 - 1]) if r < 0.92 else 0
        vals[i] = v
    assert sum(vals) <= budget and all(v >= 0 for v in vals)
    return vals


def grid_floats(rng, size, coef_budget, unit):
    """float64 numbers unit * k (unit a power of two) with integer coefficients k adding up to at most `coef_budget`
    (< 2**53): large, exactly representable, and every sum of them is exactly representable too"""
    ks = [None] * size
    rest = coef_budget
    order = list(range(size))
    rng.shuffle(order)
    for i in order[:rng.choice([0, 1, 1])]:
        cands = [k for k in (2**50 + 1, 2**51 + 1, 2**49 + 3, 2**50 + 2**20 + 1) if k <= rest // 2]
        if cands:
            ks[i] = rng.choice(cands)
            rest -= ks[i]
    cap = max(rest // size, 1)
    for i in range(size):
        if ks[i] is None:
            r = rng.random()
            ks[i] = 0 if r < 0.15 else (rng.randint(cap // 2, cap) | 1 if r < 0.8 and cap > 4 else rng.randint(0, min(cap, 9)))
            ks[i] = min(ks[i], cap)
    assert sum(ks) <= coef_budget
    return [Fraction(unit) * k for k in ks]


def f32_values(rng, size, e0):
    """numbers a float32 stores exactly (24-bit integers times a power of two) of large and mixed magnitude: their sums
    are NOT exact in float32 (tolerance stream)"""
    return [0 if rng.random() < 0.15 else Fraction(2) ** (e0 + rng.randint(0, 6)) * rng.randint(2**23, 2**24 - 1)
            for _ in range(size)]


def midpoint(pair):
    return (pair[0] + pair[1]) / 2


def rand_big_ops(rng, d=None, route=None):
    """setup ops of a parent whose contents / squared errors need more than 53 bits; returns (setup ops, axes, tags, extra)
    where extra holds case-level flags (no_model, tolerance) and the events of the `filled` route"""
    d = d or rng.choice([2, 2, 2, 3, 3, 4])
    axes = [gennd.axis_binning(rng, maxbins=3 if d < 4 else 2) for _ in range(d)]
    shape = [len(a[1]) for a in axes]
    size = int(np.prod(shape))
    longest = max(shape)
    route = route or rng.choice(BIG_ROUTES)
    nm = rng.sample(["x", "y", "z", "t", "a", "b"], d) if rng.random() < 0.6 else None
    tags = ["stream:beyond53", f"stream:beyond53:{route}"]
    extra = {}
    base = {"op": "of_arrays", "out": 0, "axes": [a[0] for a in axes], "missed": rs(rng.randint(0, 4)), "names": nm, "keep": True}

    if route in ("explicit", "uint64"):
        # the running sums along one axis add up to at most longest * total (the snapshot reads the total of every register)
        f = big_ints(rng, size, I64MAX // longest) if rng.random() < 0.7 else [rng.choice([0, 1, 2, 3, 5, 8]) for _ in range(size)]
        e = big_ints(rng, size, I64MAX)
        init = dict(base, freq=[rs(x) for x in f], err2=[rs(x) for x in e], dtype="int64" if route == "explicit" else "uint64")
        if rng.random() < 0.4:
            init["missed"] = rs(rng.choice([TWO53 + 1, 2**60 + 3, 10**16 + 1, 2**62 + 1]))
            init["missed_kind"] = "pyint"
            tags.append("stream:beyond53:missed")
        setup = [init]
        if route == "uint64":
            extra["no_model"] = True        # the model has no unsigned type (physt stores such arrays as int64)
    elif route == "scaled":
        # a counting histogram times a large python integer: contents n*c, squared errors n*c*c ~ 1e16 and more
        f = [rng.choice([0, 0, 1, 1, 2, 3]) for _ in range(size)]
        if not any(f):
            f[rng.randrange(size)] = 1
        n = sum(f)
        c = rng.choice([x for x in BIG_FACTORS if x * x * n <= I64MAX])
        init = dict(base, freq=[rs(x) for x in f], err2=None, dtype="int64")
        how = rng.choice(["imul", "mul", "rmul"])
        if how == "imul":
            op = {"op": "imul", "h": 0, "c": rs(c), "k": "pyint"}
        else:
            op = {"op": "mul", "h": 0, "c": rs(c), "k": "pyint", "out": 0, "reflected": how == "rmul"}
        setup = [init, op]
        tags.append(f"scaled_by:{how}")
    elif route == "filled":
        # an empty integer histogram filled event by event with large integer weights (squares beyond 2**53)
        events = []
        for _ in range(rng.randint(3, 10)):
            v = [midpoint(rng.choice(a[1])) for a in axes]
            if rng.random() < 0.06:         # next to the bins: the weight goes to the missed count
                j = rng.randrange(d)
                v[j] = axes[j][1][0][0] - 1.0
            events.append((v, rng.choice(BIG_WEIGHTS)))
        setup = [{"op": "empty", "out": 0, "axes": [a[0] for a in axes], "names": nm, "keep": True, "dtype": "int64"}]
        setup += [{"op": "fill", "h": 0, "v": [rs(x) for x in v], "w": rs(w), "wk": "pyint"} for v, w in events]
        extra["events"] = True
    elif route == "f64_grid":
        f = grid_floats(rng, size, (TWO53 - 1) // longest, Fraction(2) ** rng.choice([8, 8, 10, 30, 100, -20]))
        e = grid_floats(rng, size, TWO53 - 1, Fraction(2) ** rng.choice([8, 16, 60, 200]))
        init = dict(base, freq=[rs(x) for x in f], err2=[rs(x) for x in e], dtype="float64")
        if rng.random() < 0.4:
            init["missed"] = rs(rng.choice([2**60 + 2**8, 2**70, 2**53 + 2]))
            tags.append("stream:beyond53:missed")
        setup = [init]
    elif route == "f32_rounded":
        e0 = rng.choice([0, 20, 60, 90])
        init = dict(base, freq=[rs(x) for x in f32_values(rng, size, e0)], err2=[rs(x) for x in f32_values(rng, size, e0)],
                    dtype="float32")
        setup = [init]
        extra["tolerance"] = True           # float32 sums are rounded: compared at float32 precision (DESIGN 9.4)
    else:
        raise ValueError(route)
    return setup, axes, tags, extra


# ------------------------------------------------------------------ axis references and axis lists

def spell(rng, i, names):
    """one of the legitimate ways to refer to axis i (physt takes no negative indices)"""
    return names[i] if rng.random() < 0.5 else i


def bad_axis(rng, names, d, custom):
    """a reference to an axis the histogram does not have"""
    i = rng.randrange(d)
    pool = [d, d, d + rng.randint(1, 3), -1, -1, -d, -(d + 1), "no_such_axis", f"axis{d}", names[i].upper(),
            names[i] + " ", " " + names[i], names[i] * 2, str(i), ""]
    if custom:
        pool += [f"axis{i}", f"axis{i}"]         # the default name of an existing axis that was given another name
    while True:
        a = rng.choice(pool)
        if not (isinstance(a, str) and a in names):
            return a


def bad_axis_list(rng, names, d, custom):
    """an axis list projection must refuse: empty, naming one axis twice (in the same or in different spellings, anywhere
    in the list), or containing an axis the histogram does not have; returns (list, kind)"""
    r = rng.random()
    if r < 0.1:
        return [], "empty"
    if r < 0.65:
        base = rng.sample(range(d), rng.randint(1, d))
        j = rng.choice(base)
        refs = [spell(rng, i, names) for i in base]
        first = refs[base.index(j)]
        if rng.random() < 0.65:
            again = j if isinstance(first, str) else names[j]      # the other spelling
            kind = "dup_mixed_spelling"
        else:
            again = first
            kind = "dup_same_spelling"
        refs.insert(rng.randint(0, len(refs)), again)
        return refs, kind
    base = rng.sample(range(d), rng.randint(0, d - 1))
    refs = [spell(rng, i, names) for i in base]
    b = bad_axis(rng, names, d, custom)
    refs.insert(rng.randint(0, len(refs)), b)
    return refs, "unknown_name" if isinstance(b, str) else ("negative" if b < 0 else "out_of_range")


def axis_list_problem(axes, names, d):
    """why the property says this axis list has to be refused (None if it is a proper list): computed from the histogram's
    public axis names and dimension only"""
    if len(axes) == 0:
        return "the list is empty"
    seen = {}
    for a in axes:
        if isinstance(a, str):
            if a not in names:
                return f"there is no axis named {a!r}"
            i = names.index(a)
        else:
            if not (0 <= a < d):
                return f"there is no axis {a}"
            i = a
        if i in seen:
            return f"{seen[i]!r} and {a!r} are the same axis"
        seen[i] = a
    return None


class C09(HistNProp):
    ID = "C09"
    N_QUICK = 400
    N_THOROUGH = 10000
    RULE = ("ND histograms (d = 2..4, 1-4 bins per axis, asymmetric shapes, arbitrary contents / errors, named or default axes) x "
            "projection onto every kind of axis list (indices or names, any order), a second projection of the result, direct "
            "construction from the kept columns, T and T.T (d = 2), accumulate(axis), and the refused axis lists (empty, duplicate, "
            "out of range, negative, unknown name). Thorough: all non-empty proper subsets in every order for d <= 4. "
            "Refusals in every spelling (every case one, every 4th case four more, at any position of the history, on the parent "
            "and on its 2-d / 3-d projection): lists naming one axis twice by index + name, name + index or the same way twice, "
            "inside longer lists (up to d + 1 entries), lists with an axis the histogram does not have (index >= d, negative, "
            "unknown / empty / differently cased name, the default name of a renamed axis, a digit string), the empty list, and "
            "the one-axis calls accumulate / select / merge_bins(axis=) / partial_normalize with such an axis; the oracle decides "
            "from the axis names and the dimension alone whether a list has to be refused. "
            "Narrow content types (every 8th case, every 2nd case of the failing-input search, and as neighbours of a "
            "disagreeing case): int16 / int32 / float16 / float32 parents built from arrays of that type or converted by "
            "set_dtype / the dtype property, contents and squared errors near the type's limits, so that marginals and running "
            "sums of the integer types exceed the parent type's range (float contents lie on a grid on which all sums are exact "
            "and in range); expected values are sums of python Fractions. "
            "Integers beyond 2**53 (stream:beyond53, every 8th case, every 4th case of the failing-input search, neighbours of a "
            "disagreeing case, and in thorough all axis lists in every order for d <= 4): int64 parents whose contents and / or "
            "squared errors need more than 53 bits (odd numbers beyond 2**53, 2**60 + 3, ...; all sums inside int64) built from "
            "explicit arrays of exact integers (explicit; uint64 arrays, which physt stores as int64, oracle only), as a counting "
            "histogram times a large python integer (scaled: squared errors n*c*c ~ 1e16), or filled event by event with large "
            "integer weights (filled; with the histogram filled directly from the kept columns next to the projection), missed "
            "weights beyond 2**53; float64 parents of large numbers on a power-of-two grid on which every sum is exact "
            "(f64_grid); float32 parents of mixed large magnitude whose sums are rounded (f32_rounded: oracle and "
            "correspondence at relative 1e-5). All numbers travel as exact integer / rational strings, never through a float. "
            "non-trivial = non-zero contents and at least one axis with > 1 bin dropped; distinct = op-list hash")
    FIELDS = {"bins", "shape", "freq", "err2", "total", "dtype", "names", "ndim"}

    def gen_case(self, rng, k, tier):
        narrow = (k % 8 == 3) or (tier == "search" and k % 2 == 1)
        big = ENABLE_BEYOND53 and ((k % 8 == 6) or (tier == "search" and k % 4 == 2))
        extra = {}
        if narrow:
            setup, axes, tags = rand_narrow_ops(rng)
        elif big:
            setup, axes, tags, extra = rand_big_ops(rng)
        else:
            init, axes = rand_nd_op(rng)
            setup, tags = [init], []
        return self.build(rng, setup, axes, tags=tags, many_refusals=(k % 4 == 1), extra=extra)

    def build(self, rng, setup, axes, subset=None, tags=(), many_refusals=False, extra=None):
        if isinstance(setup, dict):
            setup = [setup]
        init = setup[0]
        d = len(axes)
        ops = list(setup)
        custom = init["names"] is not None
        names = init["names"] or [f"axis{i}" for i in range(d)]
        if subset is None:
            m = rng.randint(1, d - 1)
            subset = rng.sample(range(d), m)
        ref = lambda i: names[i] if rng.random() < 0.4 else i
        ops.append({"op": "projection", "h": 0, "axes": [ref(i) for i in subset], "out": 1})
        kept = sorted(subset)
        if len(kept) >= 2:
            sub2 = rng.sample(range(len(kept)), rng.randint(1, len(kept) - 1))
            knames = [names[i] for i in kept]
            ops.append({"op": "projection", "h": 1, "axes": [knames[j] if rng.random() < 0.4 else j for j in sub2], "out": 2})
            # the same final axes directly from the parent
            final = sorted(kept[j] for j in sub2)
            ops.append({"op": "projection", "h": 0, "axes": final, "out": 3})
        extra = dict(extra or {})
        if extra.pop("events", False):
            # the histogram built directly from the kept columns of the same events (register 9)
            ops.append({"op": "empty", "out": 9, "axes": [init["axes"][i] for i in kept], "names": [names[i] for i in kept],
                        "keep": True, "dtype": init.get("dtype", "int64")})
            for o in setup[1:]:
                if o["op"] == "fill":
                    ops.append({"op": "fill", "h": 9, "v": [o["v"][i] for i in kept], "w": o["w"], "wk": o["wk"]})
        if d == 2:
            ops.append({"op": "T", "h": 0, "out": 4})
            ops.append({"op": "T", "h": 4, "out": 5})
        ax = rng.randrange(d)
        ops.append({"op": "accumulate", "h": 0, "axis": names[ax] if rng.random() < 0.3 else ax, "out": 6, "_axis": ax})
        tags = list(tags) + [f"d:{d}", f"keep:{len(kept)}"]
        # --- calls that have to be refused
        if rng.random() < 0.25:
            what = rng.choice(["proj_none", "proj_dup", "proj_range", "proj_name", "proj_neg", "acc_range"])
            ops.append({"op": "invalid", "what": what, "h": 0})
            n_ref = 0
        else:
            n_ref = 1
        if many_refusals:
            n_ref += 4
            tags.append("refusal_stream")
        for _ in range(n_ref):
            r = rng.random()
            if r < 0.15 and len(kept) >= 2:
                # on the projection (register 1, a 2-d / 3-d histogram with the kept axes' names)
                knames = [names[i] for i in kept]
                lst, kind = bad_axis_list(rng, knames, len(kept), custom)
                op = {"op": "projection", "h": 1, "axes": lst, "out": 7, "expect": "refused"}
                lo = next(i for i, o in enumerate(ops) if o.get("out") == 1) + 1
                tags.append("refuse_on_projection")
            elif r < 0.7:
                lst, kind = bad_axis_list(rng, names, d, custom)
                op = {"op": "projection", "h": 0, "axes": lst, "out": 7, "expect": "refused"}
                lo = len(setup)
            else:
                b = bad_axis(rng, names, d, custom)
                call = rng.choice(["accumulate", "select", "merge"] + (["partial_normalize"] if d == 2 else []))
                op = {"op": call, "h": 0, "axis": b, "out": 8, "expect": "refused"}
                if call == "select":
                    op["index"] = 0
                if call == "merge":
                    op["amount"] = 1
                kind = f"{call}_bad_axis"
                lo = len(setup)
            tags.append(f"refuse:{kind}")
            ops.insert(rng.randint(lo, len(ops)), op)        # anywhere in the history
        return dict({"kind": "histn", "ops": ops, "tags": tags, "subset": list(subset), "setup": len(setup)}, **extra)

    def model_case(self, case, io):
        # unsigned contents are outside the model's types: those cases are judged by the oracle alone
        return None if case.get("no_model") else case

    def exhaustive_cases(self, tier):
        if tier != "thorough":
            return
        import random
        rng = random.Random(9)
        for d in (2, 3, 4):
            init, axes = rand_nd_op(rng, d=d, maxbins=3)
            for m in range(1, d):
                for sub in itertools.permutations(range(d), m):
                    c = self.build(rng, init, axes, subset=list(sub))
                    c["tags"].append("exhaustive_axis_lists")
                    yield c
        if not ENABLE_BEYOND53:
            return
        for d in (2, 3, 4):
            for route in ("explicit", "scaled", "filled"):
                setup, axes, tags, extra = rand_big_ops(rng, d=d, route=route)
                for m in range(1, d):
                    for sub in itertools.permutations(range(d), m):
                        c = self.build(rng, setup, axes, subset=list(sub), tags=tags, extra=extra)
                        c["tags"].append("exhaustive_axis_lists")
                        yield c

    def neighbours(self, case):
        """the same history on a parent stored as int16 / int32 with every bin near the type's maximum (marginals and
        running sums then exceed the parent type's range), directly and through set_dtype"""
        ops = case["ops"]
        ns = case.get("setup", 1)
        if not ops or ops[0].get("op") != "of_arrays":
            return
        for dt, lim in INT_LIMIT.items():
            for variant in range(3):
                def near(vals, shift):
                    out = []
                    for i, v in enumerate(vals):
                        q = int(Fraction(v))
                        out.append(rs(lim - ((7 * q + 3 * i + shift) % 11) * (1 if variant == 0 else lim // 37)))
                    return out
                c = copy.deepcopy(case)
                init = c["ops"][0]
                init["freq"] = near(init["freq"], 0)
                if init.get("err2") is not None:
                    init["err2"] = near(init["err2"], 5)
                if init.pop("missed_kind", None) or Fraction(init.get("missed") or 0) > 4:
                    init["missed"] = "4"            # a missed weight of the beyond-2**53 stream does not fit the narrow type
                c.pop("no_model", None)
                c.pop("tolerance", None)
                rest = [o for o in c["ops"][ns:]]
                if variant == 2:
                    init["dtype"] = "int64"
                    c["ops"] = [init, {"op": "set_dtype", "h": 0, "dtype": dt}] + rest
                else:
                    init["dtype"] = dt
                    c["ops"] = [init] + rest
                c["setup"] = len(c["ops"]) - len(rest)
                c["tags"] = list(c.get("tags", [])) + [f"narrow:{dt}", "neighbour"]
                yield c
        if not ENABLE_BEYOND53:
            return
        # the same history on an int64 parent whose contents and / or squared errors are odd numbers beyond 2**53
        n0 = len(ops[0]["freq"])
        longest = max(len(b["bins"]) if b["t"] == "static" else b["count"] for b in ops[0]["axes"])
        for variant in range(3):
            cap = (I64MAX // longest) // n0

            def beyond(vals, shift, cap=cap):
                return [rs(((cap - ((7 * int(Fraction(v)) + 3 * i + shift) % 11) * (1 if variant == 0 else cap // 37)) | 1) - 2)
                        for i, v in enumerate(vals)]
            c = copy.deepcopy(case)
            init = c["ops"][0]
            if variant != 2:
                init["freq"] = beyond(init["freq"], 0)
            else:
                init["freq"] = [rs(int(Fraction(v)) % 10) for v in init["freq"]]
            init["err2"] = beyond(init["err2"] if init.get("err2") is not None else init["freq"], 5, cap=I64MAX // n0)
            init["dtype"] = "int64"
            rest = [o for o in c["ops"][ns:]]
            c["ops"] = [init] + rest
            c["setup"] = 1
            c.pop("no_model", None)
            c.pop("tolerance", None)
            c["tags"] = [x for x in c.get("tags", []) if not x.startswith(("stream:", "narrow"))] + ["stream:beyond53:neighbour", "neighbour"]
            yield c

    def shrink_candidates(self, case):
        ops = case["ops"]
        ns = case.get("setup", 1)
        for k in range(len(ops) - 1, ns - 1, -1):
            if "out" in ops[k] and any(o.get("h") == ops[k]["out"] for o in ops[k + 1:]):
                continue
            c = copy.deepcopy(case)
            del c["ops"][k]
            yield c
        for k in range(ns, len(ops)):
            if ops[k]["op"] == "projection" and not any(o.get("h") == ops[k].get("out") for o in ops[k + 1:]):
                # (a projection whose result is used later keeps its axes: the later calls were written for that result)
                for j in range(len(ops[k]["axes"])):
                    c = copy.deepcopy(case)
                    del c["ops"][k]["axes"][j]
                    yield c
        if any(t.startswith("stream:beyond53") for t in case.get("tags", [])):
            # fewer events (the directly filled copy loses the same event), then smaller cells; the case stays well-formed
            fills = [k for k in range(1, ns) if ops[k]["op"] == "fill"]
            for n, k in enumerate(fills):
                c = copy.deepcopy(case)
                twins = [j for j in range(ns, len(ops)) if ops[j]["op"] == "fill" and ops[j].get("h") == 9]
                if len(twins) == len(fills):
                    del c["ops"][twins[n]]
                del c["ops"][k]
                c["setup"] = ns - 1
                yield c
            if ops[0]["op"] == "of_arrays":
                for key in ("err2", "freq"):
                    vals = ops[0].get(key)
                    if vals is None:
                        continue
                    if any(v != "0" for v in vals):
                        c = copy.deepcopy(case)
                        c["ops"][0][key] = ["0" if i % 2 else v for i, v in enumerate(vals)]
                        if c["ops"][0][key] != vals:
                            yield c
                    for i, v in enumerate(vals):
                        if v not in ("0", "1"):
                            c = copy.deepcopy(case)
                            c["ops"][0][key][i] = "0"
                            yield c

    def tags(self, case, io):
        t = super().tags(case, io)
        try:
            src = io["outs"][case.get("setup", 1) - 1]["regs"][0]
            lim = self.DTYPE_LIMITS.get(src["dtype"])
            if lim is not None and src["dtype"] != "int64":
                F = obj_arr(src["freq"], src["shape"])
                if any(x > lim for ax in range(src["ndim"]) for x in np.asarray(F.sum(axis=ax), dtype=object).ravel()):
                    t.append("marginal_exceeds_parent_dtype_range")
            if src["dtype"] == "int64":
                # what the parent really holds after the setup ops (not what the generator meant to produce)
                for key in ("freq", "err2"):
                    A = obj_arr(src[key], src["shape"])
                    if any(x > TWO53 for x in A.ravel()):
                        t.append(f"int64_cell_beyond_2**53:{key}")
                    sums = [x for ax in range(src["ndim"]) for x in np.asarray(A.sum(axis=ax), dtype=object).ravel()]
                    if any(Fraction(float(x)) != x for x in sums):
                        t.append(f"int64_marginal_not_a_float64:{key}")
                if Fraction(src["missed"] or 0) > TWO53:
                    t.append("int64_missed_beyond_2**53")
        except Exception:
            pass
        return t

    def oracle(self, case, io):
        outs, ops = io["outs"], case["ops"]
        ns = case.get("setup", 1)
        fails = []
        if outs[0]["ret"] == "REFUSED":
            return ["refused_valid: setup refused: " + "; ".join(io["log"][:2])]
        src = outs[ns - 1]["regs"][0]       # the parent as it is after the setup ops (construction, change of content type)
        d = src["ndim"]
        F = obj_arr(src["freq"], src["shape"])
        E = obj_arr(src["err2"], src["shape"])

        def resolve(a, nm):
            return nm.index(a) if isinstance(a, str) else a

        def flat(a):
            return list(np.asarray(a, dtype=object).ravel())

        # float32 parents of the tolerance stream: every sum may be rounded (at float32 precision); everything else exact
        tol = Fraction(1, 10**5) if case.get("tolerance") else None

        def same(got, exp):
            got, exp = [Fraction(x) for x in got], [Fraction(x) for x in exp]
            if len(got) != len(exp):
                return False
            if tol is None:
                return got == exp
            return all(abs(a - b) <= tol * max(abs(a), abs(b)) for a, b in zip(got, exp))

        def bits(vals):
            """how the exact sums compare with what float64 can hold (for the reader of a failure)"""
            big = [x for x in vals if Fraction(float(x)) != x]
            return f" [{len(big)} of the exact sums are integers that float64 cannot hold]" if big else ""

        for k, op in enumerate(ops):
            if k < ns:
                continue
            ret = outs[k]["ret"]
            regs = outs[k]["regs"]
            before = outs[k - 1]["regs"]
            if regs[0] != src:
                fails.append(f"source_modified: step {k} ({op['op']}) modified the parent")
            if op["op"] == "invalid":
                if ret != "REFUSED":
                    fails.append(f"accepted_invalid: {op['what']} accepted")
                continue
            # the histogram the call is made on, as observed before the call
            par = before[op["h"]] if isinstance(op.get("h"), int) and op["h"] < len(before) else None
            if par is None:
                continue
            if op["op"] in ("projection", "accumulate", "select", "merge", "partial_normalize"):
                lst = op["axes"] if op["op"] == "projection" else [op["axis"]]
                why = axis_list_problem(lst, par["names"], par["ndim"])
                if why is not None:
                    if ret != "REFUSED":
                        got = regs[op["out"]] if op.get("out", 10**6) < len(regs) else None
                        what = "" if not got else f" and returned a {got['ndim']}-d histogram over {got['names']}"
                        call = f"projection{tuple(lst)}" if op["op"] == "projection" else f"{op['op']}(axis={lst[0]!r})"
                        fails.append(f"accepted_invalid: {call} of a {par['ndim']}-d histogram with axes {par['names']} was "
                                     f"accepted{what} although {why}")
                    if regs[op["h"]] != par:
                        fails.append(f"refused_modified: the refused call {op['op']} at step {k} changed the histogram")
                    continue
                if op["op"] in ("select", "merge", "partial_normalize"):
                    continue        # with an existing axis: other properties' business
            if ret == "REFUSED":
                fails.append(f"refused_valid: {op} of the {par['dtype']} histogram {par['freq']} (shape {par['shape']}, axes "
                             f"{par['names']}) refused: " + "; ".join(io["log"][:2]))
                continue
            if op["op"] == "projection":
                pn, pd = par["names"], par["ndim"]
                PF = obj_arr(par["freq"], par["shape"])
                PE = obj_arr(par["err2"], par["shape"])
                axs = sorted(resolve(a, pn) for a in op["axes"])
                drop = tuple(i for i in range(pd) if i not in axs)
                r = regs[op["out"]]
                ef = PF.sum(axis=drop) if drop else PF
                ee = PE.sum(axis=drop) if drop else PE
                if not same(r["freq"], flat(ef)):
                    fails.append(f"marginal: projection{tuple(op['axes'])} of the {par['dtype']} histogram {par['freq']} (shape "
                                 f"{par['shape']}): contents {r['freq']} are not the sums over the dropped axes "
                                 f"{[str(x) for x in flat(ef)]}{bits(flat(ef))}")
                if not same(r["err2"], flat(ee)):
                    fails.append(f"marginal_err2: projection{tuple(op['axes'])} of the {par['dtype']} histogram with squared errors "
                                 f"{par['err2']} (shape {par['shape']}): squared errors {r['err2']} are not the sums over "
                                 f"the dropped axes {[str(x) for x in flat(ee)]}{bits(flat(ee))}")
                if r["bins"] != [par["bins"][i] for i in axs]:
                    fails.append(f"proj_bins: projection{tuple(op['axes'])} bins are not those of axes {axs} in original order")
                if r["names"] != [pn[i] for i in axs]:
                    fails.append(f"proj_names: projection{tuple(op['axes'])} names {r['names']}, expected {[pn[i] for i in axs]}")
                if not same([r["total"]], [par["total"]]):
                    fails.append(f"proj_total: total changed from {par['total']} to {r['total']}")
                elif not same([r["total"]], [sum(flat(PF), Fraction(0))]):
                    fails.append(f"proj_total_exact: the total {r['total']} of projection{tuple(op['axes'])} is not the sum "
                                 f"{sum(flat(PF), Fraction(0))} of the parent's contents {par['freq']}")
                if r["ndim"] != len(axs):
                    fails.append("proj_ndim")
            if op["op"] == "accumulate" and op["h"] == 0:
                ax = resolve(op["axis"], src["names"])
                r = regs[op["out"]]
                cs = np.cumsum(F, axis=ax)
                if not same(r["freq"], flat(cs)):
                    fails.append(f"accumulate: accumulate({op['axis']!r}) of the {src['dtype']} histogram {src['freq']} (shape "
                                 f"{src['shape']}) gives {r['freq']}, not the running sums along axis {ax} {[str(x) for x in flat(cs)]}")
                elif r["shape"] == src["shape"]:
                    # last cumulative entry = marginal over that axis
                    lastslice = flat(np.take(obj_arr(r["freq"], r["shape"]), -1, axis=ax))
                    if not same(lastslice, flat(F.sum(axis=ax))):
                        fails.append(f"accumulate_last: the last entries of accumulate({op['axis']!r}) are not the marginal over axis {ax}")
                if r["bins"] != src["bins"] or r["names"] != src["names"]:
                    fails.append("accumulate_bins: accumulate changed bins or names")
        last = outs[-1]["regs"]
        fails += self.direct_clause(case, outs, same)
        if len(last) > 3 and last[2] is not None and last[3] is not None and self.same_final_axes(case, src):
            a, b = last[2], last[3]
            for f in ("bins", "names", "freq", "err2", "shape"):
                if a[f] != b[f] and not (f in ("freq", "err2") and same(a[f], b[f])):
                    fails.append(f"compose: projecting in two steps differs from projecting once in {f}: {a[f]} vs {b[f]}")
        if len(last) > 5 and last[4] is not None and last[5] is not None:
            t, tt = last[4], last[5]
            if t["bins"] != src["bins"][::-1] or t["names"] != src["names"][::-1]:
                fails.append("T_bins_names: T does not swap bins and names")
            if [Fraction(x) for x in t["freq"]] != list(np.asarray(F.T, dtype=object).ravel()) or \
               [Fraction(x) for x in t["err2"]] != list(np.asarray(E.T, dtype=object).ravel()):
                fails.append("T_contents: T does not transpose contents / errors")
            for f in ("bins", "names", "freq", "err2", "shape", "missed", "dtype"):
                if tt[f] != src[f]:
                    fails.append(f"T_involution: T.T differs from the original in {f}: {tt[f]} vs {src[f]}")
            if t["missed"] != src["missed"]:
                fails.append(f"T_missed: T changed missed from {src['missed']} to {t['missed']}")
        return fails[:6]

    @staticmethod
    def same_final_axes(case, src):
        """do the two-step projection (registers 1, 2) and the one-step projection (register 3) of this case still ask for
        the same axes of the parent?  (a shrunk case may have lost an axis of one of the lists)"""
        try:
            pr = {o["out"]: o for o in case["ops"][case.get("setup", 1):]
                  if o["op"] == "projection" and o.get("expect") != "refused" and o.get("out") in (1, 2, 3)}
            nm = src["names"]
            res = lambda a, names: names.index(a) if isinstance(a, str) else a
            kept1 = sorted(res(a, nm) for a in pr[1]["axes"])
            two = sorted(kept1[res(a, [nm[i] for i in kept1])] for a in pr[2]["axes"])
            one = sorted(res(a, nm) for a in pr[3]["axes"])
            return pr[1]["h"] == 0 and pr[2]["h"] == 1 and pr[3]["h"] == 0 and two == one
        except Exception:
            return False

    def direct_clause(self, case, outs, same):
        """`filled` route: the projection (register 1) equals the histogram built directly from the kept columns of the
        same events (register 9) whenever no event missed the parent's bins.  The clause checks for itself that the two
        lists of events still correspond (a shrunk case may have lost some)."""
        ops, ns = case["ops"], case.get("setup", 1)
        last = outs[-1]["regs"]
        if len(last) <= 9 or last[1] is None or last[9] is None:
            return []
        proj = next((o for o in ops[ns:] if o["op"] == "projection" and o.get("out") == 1 and o.get("h") == 0), None)
        src = outs[ns - 1]["regs"][0]
        if proj is None or any(o["op"] != "fill" for o in ops[1:ns]) or ops[0]["op"] != "empty":
            return []
        if axis_list_problem(proj["axes"], src["names"], src["ndim"]) is not None:
            return []
        kept = sorted(src["names"].index(a) if isinstance(a, str) else a for a in proj["axes"])
        pf = [(o, outs[k]["ret"]) for k, o in enumerate(ops) if k < ns and o["op"] == "fill"]
        df = [(o, outs[k]["ret"]) for k, o in enumerate(ops) if k >= ns and o["op"] == "fill" and o.get("h") == 9]
        if len(pf) != len(df) or any(not isinstance(r, list) for _, r in pf + df):
            return []           # an event missed the bins (or was refused): the text promises nothing
        if any([a["v"][i] for i in kept] != b["v"] or a["w"] != b["w"] or a["wk"] != b["wk"] for (a, _), (b, _) in zip(pf, df)):
            return []
        p, q = last[1], last[9]
        out = []
        for f in ("bins", "names", "shape", "freq", "err2"):
            if p[f] != q[f] and not (f in ("freq", "err2") and same(p[f], q[f])):
                out.append(f"direct: projection{tuple(proj['axes'])} of the histogram filled with {[(a['v'], a['w']) for a, _ in pf]} "
                           f"differs in {f} from the histogram filled directly with the kept columns: {p[f]} vs {q[f]}")
        return out

    def nontrivial(self, case, io):
        try:
            s = io["outs"][case.get("setup", 1) - 1]["regs"][0]
            return any(Fraction(x) != 0 for x in s["freq"]) and any(n > 1 for n in s["shape"])
        except Exception:
            return False


PROP = C09()

"""C09 — projections are exact marginals; T; accumulate."""
from __future__ import annotations

import copy
import itertools
from fractions import Fraction

import numpy as np

from .. import gen1, gennd, implnd
from ..core import rs
from .basen import HistNProp


def obj_arr(vals, shape):
    a = np.empty(len(vals), dtype=object)
    for i, v in enumerate(vals):
        a[i] = Fraction(v) if isinstance(v, (str, int)) and v not in ("inf", "-inf") else xval(v)
    return a.reshape(shape)


def rand_nd_op(rng, d=None, out=0, maxbins=4, names=True, dtype=None):
    d = d or rng.choice([2, 2, 3, 3, 4])
    axes = [gennd.axis_binning(rng, maxbins=maxbins if d < 4 else 3) for _ in range(d)]
    shape = [len(a[1]) for a in axes]
    size = int(np.prod(shape))
    dt = dtype or rng.choice(["int64", "int64", "float64", "int32", "float32"])
    isint = dt.startswith("int")
    f = [rng.choice([0, 0, 1, 2, 3, 5, 8]) if isint else rng.choice([0, 0.5, 1.25, 2, 4.75]) for _ in range(size)]
    e = None if rng.random() < 0.35 else [rng.randint(0, 9) if isint else rng.randint(0, 40) / 4 for _ in range(size)]
    nm = None
    if names and rng.random() < 0.7:
        nm = rng.sample(["x", "y", "z", "t", "a", "b"], d)
    return {"op": "of_arrays", "out": out, "axes": [a[0] for a in axes], "freq": [rs(x) for x in f],
            "err2": None if e is None else [rs(x) for x in e], "missed": rs(rng.randint(0, 4)), "dtype": dt,
            "names": nm, "keep": True}, axes


# ------------------------------------------------------------------ narrow content types, contents near the type's limits

INT_LIMIT = {"int16": 2**15 - 1, "int32": 2**31 - 1}
# float types: contents are integer multiples of `unit` with coefficients adding up to at most `coef` over the whole
# histogram, so every partial sum (marginal, running sum, total) is exactly representable and inside the type's range
FLOAT_GRID = {"float16": (2**5, 2**11 - 1), "float32": (2**104, 2**24 - 1)}
WIDE = {"int16": "int64", "int32": "int64", "float16": "float64", "float32": "float64"}


def near_limit_ints(rng, lim, size):
    """non-negative integers, each inside the type's range, most of them in its upper part: sums of two or more of them
    along any axis leave the range"""
    def one():
        r = rng.random()
        if r < 0.3:
            return lim - rng.randint(0, 3)
        if r < 0.6:
            return lim - rng.randint(0, lim // 4)
        if r < 0.85:
            return rng.randint(lim // 3, lim)
        return rng.choice([0, 1, 2, 5])
    return [one() for _ in range(size)]


def near_limit_floats(rng, dt, size, longest):
    # the budget leaves room for the total of the running sums along the longest axis (a float type adds in its own
    # precision, and what an overflowing float sum gives is not the property's business)
    unit, coef = FLOAT_GRID[dt]
    q = coef // (size * longest)
    return [unit * rng.randint(q // 2, q) for _ in range(size)]


def near_limit_contents(rng, dt, size, longest):
    if dt in INT_LIMIT:
        return near_limit_ints(rng, INT_LIMIT[dt], size)
    return near_limit_floats(rng, dt, size, longest)


def rand_narrow_ops(rng, d=None):
    """setup ops of a parent stored in a narrow type (directly from arrays of that type, or converted by set_dtype / the
    dtype property) whose contents and squared errors are near the type's limits; returns (setup ops, axes)"""
    d = d or rng.choice([2, 2, 3, 3, 4])
    axes = [gennd.axis_binning(rng, maxbins=3 if d < 4 else 2) for _ in range(d)]
    shape = [len(a[1]) for a in axes]
    size = int(np.prod(shape))
    dt = rng.choice(["int16", "int16", "int16", "int32", "int32", "int32", "float16", "float32"])
    f = near_limit_contents(rng, dt, size, max(shape))
    e = None if rng.random() < 0.4 else near_limit_contents(rng, dt, size, max(shape))
    nm = rng.sample(["x", "y", "z", "t", "a", "b"], d) if rng.random() < 0.7 else None
    route = rng.choice(["array", "array", "set_dtype", "dtype_property"])
    init = {"op": "of_arrays", "out": 0, "axes": [a[0] for a in axes], "freq": [rs(x) for x in f],
            "err2": None if e is None else [rs(x) for x in e], "missed": rs(rng.randint(0, 4)),
            "dtype": dt if route == "array" else WIDE[dt], "names": nm, "keep": True}
    setup = [init]
    if route != "array":
        setup.append({"op": "set_dtype", "h": 0, "dtype": dt, "via_property": route == "dtype_property"})
    return setup, axes, [f"narrow:{dt}", f"narrow_route:{route}"]


# ------------------------------------------------------------------ integers beyond 2**53 (and their neighbours)
#
# int64 holds every integer below 2**63 exactly, float64 only those below 2**53 (and the even / 4-fold / ... ones above):
# contents and -- much more easily, being squares -- squared errors of integer histograms beyond 2**53 must still be summed
# exactly by projection / accumulate / total.  All numbers of these streams travel as exact integer strings (core.rs of a
# python int; implnd.arr_exact builds the arrays from python ints; snapshots use core.nrs on the numpy integers), nothing
# goes through a float on the way.

TWO53 = 2**53
I64MAX = 2**63 - 1
BIG_SPECIALS = [2**60 + 3, 2**61 + 1, 2**60 + 2**8 + 1, 2**59 + 5, 2**62 - 1, 2**58 + 2**4 + 1, 10**18 + 9]
BIG_ROUND = [10**16 + 1, (10**8 + 1)**2, (3 * 10**8 + 7)**2, 2**54 + 1, 2**55 + 3, 2**56 - 1, 2**57 + 2**3 + 1, 10**17 + 3]
BIG_FACTORS = [10**8 + 1, 10**8 + 7, 94906267, 2**27 + 1, 3 * 10**8 + 1, 2**28 + 3, 10**9 + 7, 2**31 - 1]
BIG_WEIGHTS = [10**8 + 1, 3 * 10**8 + 7, 94906267, 2**27 + 1, 2**28 + 3, 4 * 10**8 + 9, 123456789, 5 * 10**8 - 1]
BIG_ROUTES = ["explicit"] * 6 + ["scaled"] * 4 + ["filled"] * 3 + ["uint64"] * 2 + ["f64_grid"] * 2 + ["f32_rounded"] * 2
ENABLE_BEYOND53 = True


def big_ints(rng, size, budget):
    """`size` non-negative integers adding up to at most `budget` (< 2**63): up to two very large cells, most of the others
    odd numbers beyond 2**53 (not representable in float64), a few small ones and zeros"""
    vals = [None] * size
    rest = budget
    order = list(range(size))
    rng.shuffle(order)
    for i in order[:rng.choice([0, 1, 1, 2])]:
        cands = [v for v in BIG_SPECIALS if v <= rest // 2]
        if cands:
            vals[i] = rng.choice(cands)
            rest -= vals[i]
    cap = rest // size
    for i in range(size):
        if vals[i] is not None:
            continue
        r = rng.random()
        v = None
        if cap > TWO53 + 2**11:
            if r < 0.35:
                v = TWO53 + rng.choice([1, 1, 3, 5, 7, 2**10 + 1, 2 * rng.randint(0, 1000) + 1])
            elif r < 0.6:
                v = rng.randint(TWO53, cap) | 1
                v = v if v <= cap else v - 2
            elif r < 0.75:
                cands = [x for x in BIG_ROUND if x <= cap]
                v = rng.choice(cands) if cands else TWO53 + 1
        if v is None:
            v = rng.choice([0, 0, 1, 2, 5, 2**31, 2**52 + 1, 2**53 - 1]) if r < 0.92 else 0
        vals[i] = v
    assert sum(vals) <= budget and all(v >= 0 for v in vals)
    return vals


def grid_floats(rng, size, coef_budget, unit):
    """float64 numbers unit * k (unit a power of two) with integer coefficients k adding up to at most `coef_budget`
    (< 2**53): large, exactly representable, and every sum of them is exactly representable too"""
    ks = [None] * size
    rest = coef_budget
    order = list(range(size))
    rng.shuffle(order)
    for i in order[:rng.choice([0, 1, 1])]:
        cands = [k for k in (2**50 + 1, 2**51 + 1, 2**49 + 3, 2**50 + 2**20 + 1) if k <= rest // 2]
        if cands:
            ks[i] = rng.choice(cands)
            rest -= ks[i]
    cap = max(rest // size, 1)
    for i in range(size):
        if ks[i] is None:
            r = rng.random()
            ks[i] = 0 if r < 0.15 else (rng.randint(cap // 2, cap) | 1 if r < 0.8 and cap > 4 else rng.randint(0, min(cap, 9)))
            ks[i] = min(ks[i], cap)
    assert sum(ks) <= coef_budget
    return [Fraction(unit) * k for k in ks]


def f32_values(rng, size, e0):
    """numbers a float32 stores exactly (24-bit integers times a power of two) of large and mixed magnitude: their sums
    are NOT exact in float32 (tolerance stream)"""
    return [0 if rng.random() < 0.15 else Fraction(2) ** (e0 + rng.randint(0, 6)) * rng.randint(2**23, 2**24 - 1)
            for _ in range(size)]


def midpoint(pair):
    return (pair[0] + pair[1]) / 2


def rand_big_ops(rng, d=None, route=None):
    """setup ops of a parent whose contents / squared errors need more than 53 bits; returns (setup ops, axes, tags, extra)
    where extra holds case-level flags (no_model, tolerance) and the events of the `filled` route"""
    d = d or rng.choice([2, 2, 2, 3, 3, 4])
    axes = [gennd.axis_binning(rng, maxbins=3 if d < 4 else 2) for _ in range(d)]
    shape = [len(a[1]) for a in axes]
    size = int(np.prod(shape))
    longest = max(shape)
    route = route or rng.choice(BIG_ROUTES)
    nm = rng.sample(["x", "y", "z", "t", "a", "b"], d) if rng.random() < 0.6 else None
    tags = ["stream:beyond53", f"stream:beyond53:{route}"]
    extra = {}
    base = {"op": "of_arrays", "out": 0, "axes": [a[0] for a in axes], "missed": rs(rng.randint(0, 4)), "names": nm, "keep": True}

    if route in ("explicit", "uint64"):
        # the running sums along one axis add up to at most longest * total (the snapshot reads the total of every register)
        f = big_ints(rng, size, I64MAX // longest) if rng.random() < 0.7 else [rng.choice([0, 1, 2, 3, 5, 8]) for _ in range(size)]
        e = big_ints(rng, size, I64MAX)
        init = dict(base, freq=[rs(x) for x in f], err2=[rs(x) for x in e], dtype="int64" if route == "explicit" else "uint64")
        if rng.random() < 0.4:
            init["missed"] = rs(rng.choice([TWO53 + 1, 2**60 + 3, 10**16 + 1, 2**62 + 1]))
            init["missed_kind"] = "pyint"
            tags.append("stream:beyond53:missed")
        setup = [init]
        if route == "uint64":
            extra["no_model"] = True        # the model has no unsigned type (physt stores such arrays as int64)
    elif route == "scaled":
        # a counting histogram times a large python integer: contents n*c, squared errors n*c*c ~ 1e16 and more
        f = [rng.choice([0, 0, 1, 1, 2, 3]) for _ in range(size)]
        if not any(f):
            f[rng.randrange(size)] = 1
        n = sum(f)
        c = rng.choice([x for x in BIG_FACTORS if x * x * n <= I64MAX])
        init = dict(base, freq=[rs(x) for x in f], err2=None, dtype="int64")
        how = rng.choice(["imul", "mul", "rmul"])
        if how == "imul":
            op = {"op": "imul", "h": 0, "c": rs(c), "k": "pyint"}
        else:
            op = {"op": "mul", "h": 0, "c": rs(c), "k": "pyint", "out": 0, "reflected": how == "rmul"}
        setup = [init, op]
        tags.append(f"scaled_by:{how}")
    elif route == "filled":
        # an empty integer histogram filled event by event with large integer weights (squares beyond 2**53)
        events = []
        for _ in range(rng.randint(3, 10)):
            v = [midpoint(rng.choice(a[1])) for a in axes]
            if rng.random() < 0.06:         # next to the bins: the weight goes to the missed count
                j = rng.randrange(d)
                v[j] = axes[j][1][0][0] - 1.0
            events.append((v, rng.choice(BIG_WEIGHTS)))
        setup = [{"op": "empty", "out": 0, "axes": [a[0] for a in axes], "names": nm, "keep": True, "dtype": "int64"}]
        setup += [{"op": "fill", "h": 0, "v": [rs(x) for x in v], "w": rs(w), "wk": "pyint"} for v, w in events]
        extra["events"] = True
    elif route == "f64_grid":
        f = grid_floats(rng, size, (TWO53 - 1) // longest, Fraction(2) ** rng.choice([8, 8, 10, 30, 100, -20]))
        e = grid_floats(rng, size, TWO53 - 1, Fraction(2) ** rng.choice([8, 16, 60, 200]))
        init = dict(base, freq=[rs(x) for x in f], err2=[rs(x) for x in e], dtype="float64")
        if rng.random() < 0.4:
            init["missed"] = rs(rng.choice([2**60 + 2**8, 2**70, 2**53 + 2]))
            tags.append("stream:beyond53:missed")
        setup = [init]
    elif route == "f32_rounded":
        e0 = rng.choice([0, 20, 60, 90])
        init = dict(base, freq=[rs(x) for x in f32_values(rng, size, e0)], err2=[rs(x) for x in f32_values(rng, size, e0)],
                    dtype="float32")
        setup = [init]
        extra["tolerance"] = True           # float32 sums are rounded: compared at float32 precision (DESIGN 9.4)
    else:
        raise ValueError(route)
    return setup, axes, tags, extra


# ------------------------------------------------------------------ axis references and axis lists

def spell(rng, i, names):
    """one of the legitimate ways to refer to axis i (physt takes no negative indices)"""
    return names[i] if rng.random() < 0.5 else i


def bad_axis(rng, names, d, custom):
    """a reference to an axis the histogram does not have"""
    i = rng.randrange(d)
    pool = [d, d, d + rng.randint(1, 3), -1, -1, -d, -(d + 1), "no_such_axis", f"axis{d}", names[i].upper(),
            names[i] + " ", " " + names[i], names[i] * 2, str(i), ""]
    if custom:
        pool += [f"axis{i}", f"axis{i}"]         # the default name of an existing axis that was given another name
    while True:
        a = rng.choice(pool)
        if not (isinstance(a, str) and a in names):
            return a


def bad_axis_list(rng, names, d, custom):
    """an axis list projection must refuse: empty, naming one axis twice (in the same or in different spellings, anywhere
    in the list), or containing an axis the histogram does not have; returns (list, kind)"""
    r = rng.random()
    if r < 0.1:
        return [], "empty"
    if r < 0.65:
        base = rng.sample(range(d), rng.randint(1, d))
        j = rng.choice(base)
        refs = [spell(rng, i, names) for i in base]
        first = refs[base.index(j)]
        if rng.random() < 0.65:
            again = j if isinstance(first, str) else names[j]      # the other spelling
            kind = "dup_mixed_spelling"
        else:
            again = first
            kind = "dup_same_spelling"
        refs.insert(rng.randint(0, len(refs)), again)
        return refs, kind
    base = rng.sample(range(d), rng.randint(0, d - 1))
    refs = [spell(rng, i, names) for i in base]
    b = bad_axis(rng, names, d, custom)
    refs.insert(rng.randint(0, len(refs)), b)
    return refs, "unknown_name" if isinstance(b, str) else ("negative" if b < 0 else "out_of_range")


def axis_list_problem(axes, names, d):
    """why the property says this axis list has to be refused (None if it is a proper list): computed from the histogram's
    public axis names and dimension only"""
    if len(axes) == 0:
        return "the list is empty"
    seen = {}
    for a in axes:
        if isinstance(a, str):
            if a not in names:
                return f"there is no axis named {a!r}"
            i = names.index(a)
        else:
            if not (0 <= a < d):
                return f"there is no axis {a}"
            i = a
        if i in seen:
            return f"{seen[i]!r} and {a!r} are the same axis"
        seen[i] = a
    return None


# ------------------------------------------------------------------ results addressed by name (streams transformed, odd_names)
#
# Both streams use the `named` layout: every register is written once, and every op that produces a register carries the
# generator's bookkeeping of which axes OF THE PARENT (register 0) it holds and in which order (`_prov`); every reference to
# an axis carries the position in the histogram it is applied to that the generator means (`_axes` / `_axis`).  A reference
# by name always uses the name the PARENT carries on that axis -- the property says a projection keeps the names of the kept
# axes, so the result has to be addressable by them.  The oracle reads the bookkeeping only after checking that the parent
# reports the names the generator gave it.

ENABLE_TRANSFORMED = True
ENABLE_ODD_NAMES = True

# the classes of physt.special_histograms: facade function, kind of each coordinate (for plausible bins), documented default
# axis names, and the 2-d projections of the parent that come back as a plain Histogram2D (the only class that has `.T`)
SPECIAL = {
    "PolarHistogram": {"facade": "polar", "kinds": ["r", "phi"], "defaults": ["r", "phi"], "plain2d": [],
                       "bins_kw": ["radial_bins", "phi_bins"]},
    "SphericalSurfaceHistogram": {"facade": "spherical_surface", "kinds": ["theta", "phi"], "defaults": ["theta", "phi"],
                                  "plain2d": [], "bins_kw": ["theta_bins", "phi_bins"]},
    "CylindricalSurfaceHistogram": {"facade": "cylindrical_surface", "kinds": ["phi", "z"], "defaults": ["phi", "z"],
                                    "plain2d": [], "bins_kw": ["phi_bins", "z_bins"]},
    "SphericalHistogram": {"facade": "spherical", "kinds": ["r", "theta", "phi"], "defaults": ["r", "theta", "phi"],
                           "plain2d": [(0, 1), (0, 2)], "bins_kw": ["radial_bins", "theta_bins", "phi_bins"]},
    "CylindricalHistogram": {"facade": "cylindrical", "kinds": ["r", "phi", "z"], "defaults": ["rho", "phi", "z"],
                             "plain2d": [(0, 2)], "bins_kw": ["rho_bins", "phi_bins", "z_bins"]},
}
SPECIAL_CHOICE = ["CylindricalHistogram"] * 3 + ["SphericalHistogram"] * 2 + ["PolarHistogram"] * 2 + \
                 ["SphericalSurfaceHistogram", "CylindricalSurfaceHistogram"]
# facades that hand `axis_names=` on to the histogram (spherical / cylindrical_surface drop the keyword: those histograms
# are named through the `axis_names` setter)
FACADE_TAKES_NAMES = ("polar", "spherical_surface", "cylindrical")
NAME_POOL = ["radius", "angle", "height", "a", "b", "c", "R", "Phi", "u", "v", "w", "distance", "polar angle"]
UNICODE_NAMES = ["φ", "θ", "ρ", "名前", "é", "naïve", "x y", " x", "x ", "X", "Δt",
                 "ось", "p_T [GeV/c]", "None", "nan", "x.y", "x,y", "'x'"]


def coord_pairs(rng, kind):
    """consecutive bins of a plausible range for that kind of coordinate, all edges dyadic"""
    if kind == "r":
        start, widths, n = rng.choice([0, 0, 0.5, 1]), [0.5, 1, 1.5, 2], rng.randint(1, 3)
    elif kind == "phi":
        start, widths, n = rng.choice([0, 0, 0.75, 1.5]), [0.75, 1.5], rng.randint(1, 4)
        widths = [rng.choice(widths)]
    elif kind == "theta":
        start, widths, n = rng.choice([0, 0, 0.5]), [0.5, 1, 1.25], rng.randint(1, 2)
    else:
        start, widths, n = rng.choice([-2, -1, 0, 0.5]), [0.5, 1, 2], rng.randint(1, 3)
    pairs, x = [], float(start)
    for _ in range(n):
        w = rng.choice(widths)
        pairs.append([x, x + w])
        x += w
    return pairs


def special_names(rng, klass):
    """the axis names given to a histogram of a transformed class (None = the class's defaults), and the kind of choice"""
    defaults = SPECIAL[klass]["defaults"]
    d = len(defaults)
    r = rng.random()
    if r < 0.25:
        return None, "default"
    if r < 0.35:
        return list(defaults), "default_explicit"
    if r < 0.6:
        return rng.sample(NAME_POOL, d), "custom"
    if r < 0.8:
        # the documented name of the same coordinate in ANOTHER class ('r' of the polar / spherical classes against 'rho' of
        # the cylindrical one)
        other = [{"r": "rho", "rho": "r"}.get(n, n) for n in defaults]
        if other != defaults:
            return other, "other_class_default"
    # the class's own default names, on other axes (polar histogram with axes ('phi', 'r'))
    perm = list(defaults)
    while perm == list(defaults):
        rng.shuffle(perm)
    return perm, "defaults_permuted"


def small_contents(rng, size, dt):
    isint = dt.startswith("int")
    f = [rng.choice([0, 0, 1, 2, 3, 5, 8]) if isint else rng.choice([0, 0.5, 1.25, 2, 4.75]) for _ in range(size)]
    e = None if rng.random() < 0.35 else [rng.randint(0, 9) if isint else rng.randint(0, 40) / 4 for _ in range(size)]
    if not any(f):
        f[rng.randrange(size)] = 3 if isint else 1.25
    return f, e


def rand_special_ops(rng, klass=None, names_kind=None):
    """setup op of a parent of a transformed class; returns (setup ops, d, believed names, tags, extra, plain2d)"""
    klass = klass or rng.choice(SPECIAL_CHOICE)
    spec = SPECIAL[klass]
    d = len(spec["kinds"])
    while True:
        names, nk = special_names(rng, klass)
        if names_kind is None or nk == names_kind or (names_kind == "other_class_default" and "r" not in spec["defaults"]
                                                      and "rho" not in spec["defaults"] and nk == "defaults_permuted"):
            break
    route = "class" if rng.random() < 0.7 else "facade"
    tags = ["stream:transformed", f"class:{klass}", f"transformed_route:{route}", f"transformed_names:{nk}"]
    extra = {}
    if route == "class":
        while True:
            pairs = [coord_pairs(rng, k) for k in spec["kinds"]]
            shape = [len(p) for p in pairs]
            if max(shape) > 1:
                break
        dt = rng.choice(["int64", "int64", "float64", "int32", "float32"])
        f, e = small_contents(rng, int(np.prod(shape)), dt)
        named_by = None if names is None else rng.choice(["kwarg", "kwarg", "setter"])
        init = {"op": "of_special", "class": klass, "out": 0,
                "axes": [gen1.binning_json(p, ire=True, form=rng.choice(["static_obj", "edges", "pairs"])) for p in pairs],
                "freq": [rs(x) for x in f], "err2": None if e is None else [rs(x) for x in e], "missed": rs(rng.randint(0, 4)),
                "dtype": dt, "names": names, "named_by": named_by, "keep": True}
    else:
        # through the facade function: cartesian points with dyadic coordinates, explicit edges (or a number of equal angular
        # bins); which bin a point falls into is the facade's business (C15), the parent is taken as it comes
        n = rng.randint(4, 16)
        coords = [-3, -2, -1.5, -1, -0.5, -0.25, 0.25, 0.5, 1, 1.5, 2, 3]
        pts = [[rng.choice(coords) for _ in range(2 if klass == "PolarHistogram" else 3)] for _ in range(n)]
        w = None
        if rng.random() < 0.5:
            w = [rng.choice([1, 2, 3, 0.5, 1.25, 4]) for _ in range(n)]
        bins = {}
        for kw, kind in zip(spec["bins_kw"], spec["kinds"]):
            if kind in ("phi", "theta") and rng.random() < 0.6:
                bins[kw] = rng.randint(1, 4)
            else:
                p = coord_pairs(rng, kind)
                if kind in ("r", "z") and len(p) == 1:
                    p.append([p[0][1], p[0][1] + 1.0])
                bins[kw] = [rs(p[0][0])] + [rs(q[1]) for q in p]
        named_by = None
        if names is not None:
            named_by = rng.choice(["kwarg", "kwarg", "setter"]) if spec["facade"] in FACADE_TAKES_NAMES else "setter"
        init = {"op": "facade", "fn": spec["facade"], "class": klass, "out": 0, "points": [[rs(x) for x in p] for p in pts],
                "weights": None if w is None else [rs(x) for x in w], "bins": bins, "names": names, "named_by": named_by}
        extra["no_model"] = True
    if named_by:
        tags.append(f"named_by:{named_by}")
    believed = list(names) if names is not None else list(spec["defaults"])
    plain = {tuple(p) for p in spec["plain2d"]}
    return [init], d, believed, tags, extra, plain


def odd_names(rng, d, pattern=None):
    """unusual but legitimate axis names for a d-dimensional histogram: (names, pattern); unnamed axes carry '' or None, the
    named ones are all different"""
    pattern = pattern or rng.choice(["unnamed_first", "unnamed_first", "unnamed_first", "unnamed_between", "unnamed_last",
                                     "unnamed_many", "unnamed_many", "unnamed_all", "digits", "digits", "default_shifted",
                                     "default_shifted", "unicode", "long", "mixed", "mixed"])
    plain_pool = ["x", "y", "z", "t", "a", "b"]

    def blank():
        return "" if rng.random() < 0.6 else None

    if pattern.startswith("unnamed") or pattern == "mixed":
        if pattern == "unnamed_first":
            un = {0}
        elif pattern == "unnamed_between":
            un = {rng.randint(1, d - 2)} if d >= 3 else {0}
        elif pattern == "unnamed_last":
            un = {d - 1}
        elif pattern == "unnamed_all":
            un = set(range(d))
        else:
            un = set(rng.sample(range(d), rng.randint(1, d - 1)))
            if rng.random() < 0.6:
                un.add(0)
                if len(un) == d:
                    un.discard(d - 1)
        one = blank()
        uniform = rng.random() < 0.75
        if pattern == "mixed":
            pool = rng.choice([["0", "1", "2", "3"], ["1", "0", "3", "2"], [f"axis{i}" for i in (1, 2, 3, 0)],
                               UNICODE_NAMES, ["axis0", "0", "x", "φ"]])
        else:
            pool = plain_pool if rng.random() < 0.8 else ["0", "1", "y", "axis0", "z"]
        named = rng.sample(pool, d)
        return [(one if uniform else blank()) if i in un else named[i] for i in range(d)], pattern
    if pattern == "digits":
        r = rng.random()
        if r < 0.5:
            nm = [str(i) for i in range(d)]
            while nm == [str(i) for i in range(d)] and rng.random() < 0.9:
                rng.shuffle(nm)
        elif r < 0.8:
            nm = [str(i + 1) for i in range(d)]              # the name '1' on axis 0, ...
        else:
            nm = rng.sample(["-1", "00", "1", "0", "1.0", "2", "+1", "1e0"], d)
        return nm, pattern
    if pattern == "default_shifted":
        r = rng.random()
        if r < 0.4:
            nm = [f"axis{(i + 1) % d}" for i in range(d)]
        elif r < 0.6:
            nm = [f"axis{d - 1 - i}" for i in range(d)]
            if d % 2 == 1:
                nm[d // 2] = "mid"                            # (the middle axis would carry its own default name)
        else:
            # one axis named like the default of another one, the others named freely
            nm = rng.sample(plain_pool, d)
            i = rng.randrange(d)
            nm[i] = f"axis{rng.choice([j for j in range(d) if j != i])}"
        return nm, pattern
    if pattern == "unicode":
        return rng.sample(UNICODE_NAMES, d), pattern
    if pattern == "long":
        base = rng.choice(["n", "ab", "axis", "φ"]) * rng.choice([100, 300, 1000])
        if rng.random() < 0.5:
            return [base + str(i) for i in rng.sample(range(10), d)], pattern      # differ in the last character only
        return [base + base[0] * i for i in rng.sample(range(6), d)], pattern      # differ in length only
    raise ValueError(pattern)


class NamedBuilder:
    """ops of the `named` layout after the setup ops (see the comment above)"""

    def __init__(self, rng, names, d, plain2d, parent_T, p_name):
        self.rng, self.d, self.p_name = rng, d, p_name
        self.names = [n if isinstance(n, str) and n != "" else None for n in names]     # None: cannot be addressed by name
        self.plain2d = plain2d          # None: every 2-d result has .T; otherwise the set of parent axis pairs that do
        self.parent_T = parent_T
        self.prov = {0: tuple(range(d))}
        self.ops = []
        self.nxt = 1
        self.unnamed_1d = False
        self.after_unnamed = 0

    def new(self, prov):
        r = self.nxt
        self.nxt += 1
        prov = tuple(prov)
        self.prov[r] = prov
        if len(prov) == 1 and self.names[prov[0]] is None:
            self.unnamed_1d = True      # physt labels the only axis of such a result 'axis0': not routed through the model
        return r

    def ref(self, h, pos, p=None):
        pa = self.prov[h][pos]
        nm = self.names[pa]
        if nm is not None and self.rng.random() < (self.p_name if p is None else p):
            if any(self.names[q] is None for q in self.prov[h][:pos]):
                self.after_unnamed += 1
            return nm
        return pos

    def has_T(self, h):
        pv = self.prov[h]
        if len(pv) != 2:
            return False
        if h == 0:
            return self.parent_T
        return self.plain2d is None or tuple(sorted(pv)) in self.plain2d

    def projection(self, h, positions, p=None):
        axes = [self.ref(h, q, p) for q in positions]
        out = self.new(self.prov[h][q] for q in sorted(positions))
        self.ops.append({"op": "projection", "h": h, "axes": axes, "out": out, "_axes": list(positions),
                         "_prov": list(self.prov[out])})
        return out

    def transpose(self, h):
        out = self.new(reversed(self.prov[h]))
        self.ops.append({"op": "T", "h": h, "out": out, "_prov": list(self.prov[out])})
        return out

    def accumulate(self, h, pos, p=None):
        out = self.nxt
        self.nxt += 1
        self.ops.append({"op": "accumulate", "h": h, "axis": self.ref(h, pos, p), "out": out, "_axis": pos})
        return out

    def twin(self, h, pos, call):
        """one call with a single axis argument by name, and the same call by the index of the axis carrying that name"""
        nm = self.names[self.prov[h][pos]]
        if nm is None:
            return
        if any(self.names[q] is None for q in self.prov[h][:pos]):
            self.after_unnamed += 1
        left = [a for j, a in enumerate(self.prov[h]) if j != pos]
        a, b = (self.new(left), self.new(left)) if call == "select" else (self.nxt, self.nxt + 1)
        if call != "select":
            self.nxt += 2
        extra = {"index": 0} if call == "select" else ({"amount": 2} if call == "merge" else {})
        self.ops.append(dict({"op": call, "h": h, "axis": nm, "out": a, "_axis": pos, "_twin": b}, **extra))
        self.ops.append(dict({"op": call, "h": h, "axis": pos, "out": b}, **extra))

    def refusal(self, h, extra_unknown=()):
        """a call on register h that has to be refused: an unknown name, one axis twice, an index out of range"""
        rng = self.rng
        pv = self.prov[h]
        nms = [self.names[a] for a in pv]
        n = len(pv)
        have = {x for x in nms if x is not None}
        blank = any(x is None for x in nms)
        r = rng.random()
        kind = None
        if r < 0.5:
            pool = ["no_such_axis", "q"] + list(extra_unknown) * 3
            for x in have:
                pool += [x.upper(), x.lower(), x + " ", " " + x, x * 2, x[:-1], x + "0"]
            # (names an unnamed axis might be thought to answer to -- '', 'None', 'axis<i>' -- are left alone: the property
            # says nothing about them)
            pool += [str(i) for i in range(n)] if not blank else []
            if not blank:
                pool += [f"axis{i}" for i in range(n)]
            pool = [x for x in pool if x not in have and x not in ("", "None") and not (blank and x.startswith("axis"))]
            b = rng.choice(pool)
            kind = "unknown_name"
        elif r < 0.65:
            b = rng.choice([n, n + 1, -1, -n])
            kind = "out_of_range" if b >= 0 else "negative"
        if kind is not None:
            if rng.random() < 0.6:
                base = rng.sample(range(n), rng.randint(0, n - 1))
                lst = [self.ref(h, q) for q in base]
                lst.insert(rng.randint(0, len(lst)), b)
                op = {"op": "projection", "h": h, "axes": lst, "out": self.nxt, "expect": "refused"}
            else:
                call = rng.choice(["accumulate", "select", "merge"])
                op = dict({"op": call, "h": h, "axis": b, "out": self.nxt, "expect": "refused"},
                          **({"index": 0} if call == "select" else ({"amount": 1} if call == "merge" else {})))
                kind = f"{call}_bad_axis"
        else:
            cand = [q for q in range(n) if nms[q] is not None]
            if cand and rng.random() < 0.8:
                j = rng.choice(cand)
                pair = [nms[j], j] if rng.random() < 0.5 else [j, nms[j]]
                kind = "dup_mixed_spelling"
            else:
                j = rng.randrange(n)
                pair = [j, j] if nms[j] is None or rng.random() < 0.5 else [nms[j], nms[j]]
                kind = "dup_same_spelling"
            lst = list(pair)
            for q in rng.sample([q for q in range(n) if q != j], rng.randint(0, n - 1)):
                lst.insert(rng.randint(0, len(lst)), self.ref(h, q))
            op = {"op": "projection", "h": h, "axes": lst, "out": self.nxt, "expect": "refused"}
        self.nxt += 1
        # anywhere after register h exists
        lo = 0 if h == 0 else next(i for i, o in enumerate(self.ops) if o.get("out") == h) + 1
        self.ops.insert(rng.randint(lo, len(self.ops)), op)
        return kind


def build_named(rng, setup, d, names, tags, extra, plain2d=None, parent_T=None, p_name=0.6, unknown_on_results=None):
    """the case: projections of the parent onto every kind of axis list in several spellings, the results addressed again
    (projection, accumulate, T and a projection of that) by the parent's names and by position, single-axis calls by name
    next to the same call by index, refused calls"""
    parent_T = (d == 2) if parent_T is None else parent_T
    b = NamedBuilder(rng, names, d, plain2d, parent_T, p_name)
    subsets = [list(s) for m in range(1, d) for s in itertools.combinations(range(d), m)]
    if d == 4:
        rest = [s for s in subsets if len(s) > 1]
        subsets = [s for s in subsets if len(s) == 1] + rng.sample(rest, 4)
    rng.shuffle(subsets)
    results = []
    for s in subsets:
        order = list(s)
        rng.shuffle(order)
        mode = rng.choice(["name", "name", "index", "mixed"])
        p = {"name": 1.0, "index": 0.0, "mixed": 0.5}[mode]
        out = b.projection(0, order, p)
        if len(s) > 1:
            results.append(out)
        if rng.random() < 0.35:
            rng.shuffle(order)
            b.projection(0, list(order), 1.0 - p if mode != "mixed" else 0.5)     # the other spelling
    rng.shuffle(results)
    refuse_at = []
    for h in results[:3]:
        n = len(b.prov[h])
        for pos in rng.sample(range(n), rng.randint(1, n)) if n == 2 else []:
            b.projection(h, [pos], 0.8)
        if n == 3:
            sub = rng.sample(range(3), 2)
            h2 = b.projection(h, sub, 0.7)
            b.projection(h2, [rng.randrange(2)], 0.8)
            b.projection(h, [rng.randrange(3)], 0.8)
        if rng.random() < 0.6:
            b.accumulate(h, rng.randrange(n), 0.8)
        if b.has_T(h):
            t = b.transpose(h)
            b.projection(t, [rng.randrange(2)], 0.9)
            if rng.random() < 0.4:
                b.transpose(t)
            if rng.random() < 0.3:
                b.accumulate(t, rng.randrange(2), 0.9)
        refuse_at.append(h)
    for _ in range(rng.randint(1, 2)):
        b.accumulate(0, rng.randrange(d), 0.7)
    named = [q for q in range(d) if b.names[q] is not None]
    if named:
        for call in ["select"] + (["merge"] if rng.random() < 0.4 else []) + (["accumulate"] if rng.random() < 0.4 else []):
            # (prefer an axis that comes after an unnamed one)
            late = [q for q in named if any(b.names[j] is None for j in range(q))]
            b.twin(0, rng.choice(late if late and rng.random() < 0.7 else named), call)
    if b.has_T(0):
        t = b.transpose(0)
        b.transpose(t)
        b.projection(t, [rng.randrange(2)], 0.9)
        if rng.random() < 0.5:
            b.accumulate(t, rng.randrange(2), 0.9)
    kinds = []
    for _ in range(rng.randint(1, 3)):
        h = rng.choice([0, 0] + refuse_at + refuse_at)
        unk = ()
        if unknown_on_results:
            # names the histogram does NOT carry although its class, or the class of the same coordinates elsewhere, documents
            # them ('r' on the (rho, phi) projection of a cylindrical histogram, a PolarHistogram)
            have = {b.names[a] for a in b.prov[h]}
            unk = [x for x in unknown_on_results if x not in have]
        kinds.append(b.refusal(h, unk))
    tags = list(tags) + [f"d:{d}"] + [f"refuse:{k}" for k in kinds]
    if b.after_unnamed:
        tags.append("by_name_after_unnamed_axis")
    extra = dict(extra)
    if b.unnamed_1d or any(n is None for n in names):
        extra["no_model"] = True
    return dict({"kind": "histn", "layout": "named", "ops": list(setup) + b.ops, "tags": tags, "setup": len(setup),
                 "_names": list(names), "_prov0": list(range(d))}, **extra)



# ------------------------------------------------------------------ the same projection again after in-place changes (stream:reproject)
#
# `named` layout with one difference: register 0 (the parent) is changed in place between rounds of projections; every op
# carries the round it belongs to (`_epoch`), ops that change the parent carry `_mut`.  The oracle compares every result
# with the parent as observed just before the call, and every result already returned must stay what it was.

ENABLE_REPROJECT = True
REPROJECT_MUTATORS = ["set_cell"] * 5 + ["partial_normalize"] * 4 + ["fill", "fill_n", "imul", "idiv", "iadd", "normalize",
                                                                     "set_dtype", "merge"]
REPROJECT_MODEL_OPS = ("fill", "imul", "merge")


def build_reproject(rng, d=None, dtype=None, force=None):
    d = d or rng.choice([2, 2, 2, 3, 3, 4])
    dt = dtype or rng.choice(["int64", "float64", "float64", "int32"])
    init, axes = rand_nd_op(rng, d=d, names=False, dtype=dt)
    names = rng.sample(["x", "y", "z", "t", "a", "b"], d) if rng.random() < 0.75 else None
    init["names"] = names
    isint = dt.startswith("int")
    size = len(init["freq"])
    if all(Fraction(v) == 0 for v in init["freq"]):
        init["freq"][rng.randrange(size)] = "2"
    other = dict(copy.deepcopy(init), out=1)
    other["freq"] = [rs(rng.choice([0, 1, 2, 4]) if isint else rng.choice([0, 0.5, 1, 2.25])) for _ in range(size)]
    if other.get("err2") is not None:
        other["err2"] = [rs(rng.randint(0, 5)) for _ in range(size)]
    setup = [init, other]
    believed = list(names) if names else [f"axis{i}" for i in range(d)]     # (default names address the axes too)
    b = NamedBuilder(rng, believed, d, None, d == 2, 0.5)
    b.nxt = 2
    subsets = [list(s) for m in range(1, d) for s in itertools.combinations(range(d), m)]
    if d == 4:
        subsets = rng.sample(subsets, 5)
    tags = ["stream:reproject", f"reproject_dtype:{dt}"]
    shape = [len(a[1]) for a in axes]
    merged = False
    n_mut = rng.randint(2, 4)
    muts = [rng.choice(REPROJECT_MUTATORS) for _ in range(n_mut)]
    if force:
        muts[0] = force
    tol = False

    def round_(epoch, share):
        lo = len(b.ops)
        for s_ in subsets:
            if rng.random() > share:
                continue
            order = list(s_)
            rng.shuffle(order)
            b.projection(0, order, rng.choice([0.0, 1.0, 0.5]))
        if rng.random() < 0.6 * share + 0.2:
            b.accumulate(0, rng.randrange(d), 0.5)
        if d == 2 and rng.random() < 0.6:
            t = b.transpose(0)
            if rng.random() < 0.5:
                b.projection(t, [rng.randrange(2)], 0.5)
        for o in b.ops[lo:]:
            o["_epoch"] = epoch

    round_(0, 1.0)
    for e, m in enumerate(muts, start=1):
        if m == "partial_normalize" and d != 2:
            m = "set_cell"
        if m == "iadd" and merged:
            m = "imul"
        op = {"h": 0, "_mut": True, "_epoch": e}
        if m == "set_cell":
            which = rng.choice(["frequencies", "frequencies", "errors2"])
            idx = [0] * d if merged else [rng.randrange(n) for n in shape]
            how = rng.choice(["set", "add"])
            v = rng.choice([1, 2, 3, 7, 16]) if (isint or rng.random() < 0.5) else rng.choice([0.5, 1.75, 6.25])
            op.update({"op": "set_cell", "which": which, "idx": idx, "how": how, "v": rs(v)})
        elif m == "partial_normalize":
            ax = rng.randrange(2)
            op.update({"op": "partial_normalize", "axis": b.ref(0, ax), "inplace": True})
            tol = True
        elif m == "fill":
            v = [midpoint(rng.choice(a[1])) for a in axes]
            op.update({"op": "fill", "v": [rs(x) for x in v]}, **({"w": rs(rng.choice([1, 2, 3])), "wk": "pyint"} if isint or rng.random() < 0.4
                                                                else {"w": rs(rng.choice([0.5, 1.5, 2.25])), "wk": "pyfloat"}))
        elif m == "fill_n":
            rows = [[rs(midpoint(rng.choice(a[1]))) for a in axes] for _ in range(rng.randint(1, 4))]
            ws = None if rng.random() < 0.5 else [rs(rng.choice([1, 2, 3]) if isint else rng.choice([0.5, 1, 2.5])) for _ in rows]
            op.update({"op": "fill_n", "rows": rows, "ws": ws})
        elif m == "imul":
            op.update({"op": "imul"}, **({"c": rs(rng.choice([2, 3])), "k": "pyint"} if isint or rng.random() < 0.4
                                         else {"c": rs(rng.choice([0.5, 1.5, 4.0])), "k": "pyfloat"}))
        elif m == "idiv":
            op.update({"op": "idiv", "c": rs(rng.choice([2, 4, 0.5])), "k": "pyfloat"})
            isint = False
        elif m == "iadd":
            op.update({"op": "iadd", "o": 1})
        elif m == "normalize":
            op.update({"op": "normalize", "inplace": True})
            tol = True
            isint = False
        elif m == "set_dtype":
            op.update({"op": "set_dtype", "dtype": "float64" if isint else "float64", "via_property": rng.random() < 0.3})
            isint = False
        elif m == "merge":
            op.update({"op": "merge", "amount": 2, "axis": rng.randrange(d), "inplace": True})
            merged = True
        if m in ("partial_normalize",):
            isint = False
        tags.append(f"reproject:{m}")
        b.ops.append(op)
        round_(e, 0.85)
    extra = {"reproject": True}
    if tol:
        extra["reproject_tol"] = True
    return dict({"kind": "histn", "layout": "named", "ops": setup + b.ops, "tags": tags + [f"d:{d}"], "setup": 2,
                 "_names": believed, "_prov0": None}, **extra)


# ------------------------------------------------------------------ non-finite contents (stream:nonfinite)
#
# Float histograms in which some cell's content and / or squared error is NaN or +inf, reached the ways a user reaches them:
# arrays holding NaN / inf given to the constructor (`literal`), h / array with 0 / 0 and x / 0 cells under
# config.enable_free_arithmetics() (`div_array`), h * inf (0 * inf = NaN; `mul_inf`), float weights whose squares add up
# beyond the float range (`overflow_fill`), contents near the top of the float range doubled (`overflow_scaled`).  The
# property says "sums over all dropped axes": a sum with a NaN summand is NaN, inf plus finite (non-negative) numbers is
# inf, a sum of finite numbers is the exact sum (all finite cells lie on a power-of-two grid on which every sum is exact; a
# finite exact sum beyond the largest number of the result's float type is inf there).  Snapshots carry NaN as None and
# +-inf as 'inf' / '-inf' (core.nrs); the oracle computes with the same three extra values (class Ext).  Not routed through
# the model (no non-finite numbers there) unless every cell of the parent came out finite.  Negative cells (division by an
# array with a negative entry, h * -inf, both under free arithmetics): the unchanged library refuses, outside free
# arithmetics, every result with a negative content (HistogramBase.frequencies setter) -- such a refusal is accepted if it
# leaves the histogram it was asked of untouched; a result that is returned must be the sums.

ENABLE_NONFINITE = True
NF_ROUTES = ["literal"] * 9 + ["div_array"] * 5 + ["mul_inf"] * 2 + ["overflow_fill"] * 2 + ["overflow_scaled"] * 2
NF_PATTERNS = ["one_nan"] * 4 + ["one_inf"] * 2 + ["nan_and_inf_one_line"] * 3 + ["two_inf_one_line"] * 2 + \
              ["two_nan_one_line", "scattered", "scattered", "nan_line", "none"]
FLOAT_MAX = {"float16": Fraction(65504), "float32": Fraction((2**24 - 1) * 2**104), "float64": Fraction((2**53 - 1) * 2**971)}


def nf_cells(rng, shape, pattern):
    """{flat index: None (NaN) | 'inf'} for a histogram of that shape"""
    size = int(np.prod(shape))
    idx = lambda t: int(np.ravel_multi_index(t, shape))
    cell = [rng.randrange(n) for n in shape]
    if pattern == "none":
        return {}
    if pattern == "one_nan":
        return {idx(cell): None}
    if pattern == "one_inf":
        return {idx(cell): "inf"}
    if pattern == "scattered":
        out = {i: rng.choice([None, None, "inf"]) for i in range(size) if rng.random() < 0.25}
        return out or {rng.randrange(size): None}
    # two cells (or all) of one line along an axis with more than one bin
    ax = rng.choice([a for a, n in enumerate(shape) if n > 1])
    if pattern == "nan_line":
        return {idx(cell[:ax] + [j] + cell[ax + 1:]): None for j in range(shape[ax])}
    j, k = rng.sample(range(shape[ax]), 2)
    a, b = idx(cell[:ax] + [j] + cell[ax + 1:]), idx(cell[:ax] + [k] + cell[ax + 1:])
    va, vb = {"nan_and_inf_one_line": (None, "inf"), "two_inf_one_line": ("inf", "inf"), "two_nan_one_line": (None, None)}[pattern]
    return {a: va, b: vb}


def rand_nonfinite_setup(rng, route=None, transformed=None):
    """setup ops of a float parent (plain or of a transformed class) with non-finite cells; returns
    (setup, d, names, tags, extra, plain2d, parent_T)"""
    route = route or rng.choice(NF_ROUTES)
    transformed = (rng.random() < 0.3) if transformed is None else transformed
    tags = ["stream:nonfinite", f"nonfinite_route:{route}"]
    extra = {"nonfinite": True, "no_model": True}
    if transformed:
        while True:
            setup, d, names, t2, _, plain = rand_special_ops(rng)
            if setup[0]["op"] == "of_special":
                break
        tags += [t for t in t2 if t.startswith(("class:", "transformed_names:", "named_by:"))] + ["nonfinite:transformed_class"]
        init, parent_T = setup[0], False
        shape = [len(b["bins"]) for b in init["axes"]]
    else:
        init, axes = rand_nd_op(rng, dtype="float64")
        d, plain, parent_T = len(axes), None, None
        shape = [len(a[1]) for a in axes]
        names = init["names"] or [f"axis{i}" for i in range(d)]
        tags.append("nonfinite:plain_class")
    size = int(np.prod(shape))
    if max(shape) == 1:
        route = "literal" if route in ("div_array",) else route
    init["missed"] = rs(rng.randint(0, 4))
    small = lambda: [rng.choice([0, 0.5, 1.25, 2, 4.75]) for _ in range(size)]
    setup = [init]
    if route == "literal":
        dt = rng.choice(["float64"] * 4 + ["float32"] * 2 + ["float16"])
        pattern = rng.choice(NF_PATTERNS if max(shape) > 1 else ["one_nan", "one_inf", "scattered", "none"])
        where = rng.choice(["freq", "freq", "err2", "both_same", "both_other", "freq_default_err2"])
        f = [rs(x) for x in small()]
        e = [rs(rng.randint(0, 40) / 4) for _ in range(size)]
        cells = nf_cells(rng, shape, pattern)
        if where in ("freq", "both_same", "both_other", "freq_default_err2"):
            for i, v in cells.items():
                f[i] = v
        if where in ("err2", "both_same"):
            for i, v in cells.items():
                e[i] = v
        if where == "both_other":
            for i, v in nf_cells(rng, shape, rng.choice(NF_PATTERNS[:-1] if max(shape) > 1 else ["one_nan", "one_inf"])).items():
                e[i] = v
        init.update(freq=f, err2=None if where == "freq_default_err2" else e, dtype=dt, nonfinite=True)
        tags += [f"nonfinite_pattern:{pattern}", f"nonfinite_where:{where}", f"nonfinite_dtype:{dt}"]
        if pattern == "none":
            extra.pop("no_model")           # an ordinary finite histogram: through the model as well
            if any(n is None or n == "" for n in names):
                extra["no_model"] = True
    elif route == "div_array":
        # contents k / 2**m, divisors 0 and powers of two: every quotient is exact, 0 / 0 = NaN, x / 0 = inf
        dt = rng.choice(["float64", "float64", "int64", "float32"])
        isint = dt.startswith("int")
        init.update(freq=[rs(rng.choice([0, 0, 1, 2, 3, 5] if isint else [0, 0, 0.5, 1.25, 2, 4.75])) for _ in range(size)],
                    err2=None if rng.random() < 0.4 else [rs(rng.choice([0, 1, 2, 4, 9])) for _ in range(size)], dtype=dt)
        negative = rng.random() < 0.15
        div = [rng.choice([0, 0, 1, 2, 4, 0.5] + ([-1, -2] if negative else [])) for _ in range(size)]
        if not any(x == 0 for x in div):
            div[rng.randrange(size)] = 0
        setup.append({"op": "div_array", "h": 0, "out": 0, "arr": [rs(x) for x in div], "free": True})
        tags.append(f"nonfinite_dtype:{dt}")
        if negative:
            tags.append("nonfinite:negative_cells")
    elif route == "mul_inf":
        neg = rng.random() < 0.25
        init.update(freq=[rs(x) for x in small()], err2=None if rng.random() < 0.5 else [rs(rng.randint(0, 8) / 4) for _ in range(size)],
                    dtype=rng.choice(["float64", "float64", "int64", "float32"]))
        setup.append({"op": "mul_inf", "h": 0, "out": 0, "sign": -1 if neg else 1, "free": neg or rng.random() < 0.3,
                      "how": rng.choice(["mul", "rmul", "imul"])})
        if neg:
            tags.append("nonfinite:negative_cells")
    elif route == "overflow_fill":
        # weights k * 2**510: their sums are exact, their squares (multiples of 2**1020) add up beyond 2**1024 in a bin hit
        # often enough -- the squared error of that bin is inf, its content finite
        if transformed:
            return rand_nonfinite_setup(rng, route, False)
        setup = [{"op": "empty", "out": 0, "axes": init["axes"], "names": init["names"], "keep": True, "dtype": "float64"}]
        hot = [[midpoint(rng.choice(a[1])) for a in axes] for _ in range(rng.randint(1, 2))]
        for _ in range(rng.randint(4, 12)):
            v = rng.choice(hot) if rng.random() < 0.7 else [midpoint(rng.choice(a[1])) for a in axes]
            setup.append({"op": "fill", "h": 0, "v": [rs(x) for x in v], "w": rs(rng.choice([3, 3, 2, 1]) * 2**510), "wk": "pyfloat"})
    elif route == "overflow_scaled":
        # cells k * unit (unit = 2**1020 / 2**124), the large ones at the top of the float range; times 2 they are inf
        dt = rng.choice(["float64", "float64", "float32"])
        unit = 2**1020 if dt == "float64" else 2**124
        pick = lambda: rs(rng.choice([0, 0, 1, 1, 2, 3, 8, 12]) * unit)
        on_grid = rng.random() < 0.5        # (small numbers and numbers of the grid are never mixed: their sums would be rounded)
        init.update(freq=[pick() for _ in range(size)], err2=[pick() if on_grid else rs(rng.choice([0, 1, 2, 4])) for _ in range(size)],
                    dtype=dt)
        how = rng.choice(["imul", "mul", "rmul"])
        setup.append({"op": "imul", "h": 0, "c": "2", "k": "pyint"} if how == "imul" else
                     {"op": "mul", "h": 0, "c": "2", "k": "pyint", "out": 0, "reflected": how == "rmul"})
        tags.append(f"nonfinite_dtype:{dt}")
    else:
        raise ValueError(route)
    return setup, d, names, tags, extra, plain, parent_T


NF = {None: "nan", "inf": "inf", "-inf": "-inf"}


class Ext:
    """NaN, +inf, -inf next to the Fractions, with IEEE addition (NaN equals NaN here: 'the sum is NaN' is a statement)"""
    __slots__ = ("k",)

    def __init__(self, k):
        self.k = k

    def __add__(self, o):
        ok = o.k if isinstance(o, Ext) else None
        if self.k == "nan" or ok == "nan":
            return XNAN
        if ok is not None and ok != self.k:
            return XNAN             # inf + -inf
        return self

    __radd__ = __add__

    def __eq__(self, o):
        return isinstance(o, Ext) and o.k == self.k

    def __ne__(self, o):
        return not self.__eq__(o)

    def __hash__(self):
        return hash(("Ext", self.k))

    def __str__(self):
        return self.k

    __repr__ = __str__


XNAN, XINF, XNINF = Ext("nan"), Ext("inf"), Ext("-inf")
XOF = {"nan": XNAN, "inf": XINF, "-inf": XNINF}


def xval(v):
    """a snapshot entry (rational string, None = NaN, 'inf', '-inf') or a number as a Fraction / Ext"""
    if isinstance(v, Ext):
        return v
    if v is None or v in ("inf", "-inf"):
        return XOF[NF[v]]
    return Fraction(v)


def nonfinite_entry(v):
    return v is None or v in ("inf", "-inf")


def arr_nf(vals, dt):
    """float array from rational strings, None (NaN) and 'inf'; every finite value exactly representable in `dt`"""
    a = np.array([float("nan") if v is None else (float(v) if v in ("inf", "-inf") else implnd.fl(v)) for v in vals], dtype=float)
    b = a.astype(dt)
    fin = np.isfinite(a)
    if not np.array_equal(b[fin].astype(float), a[fin]) or not np.array_equal(np.isfinite(b), fin):
        raise KeyError(f"harness: values not representable in {dt}")
    return b


# ------------------------------------------------------------------ running the ops of this property on the real library

def step9(s, op, log):
    """implnd.step plus the two ways of making a parent of a transformed class"""
    name = op["op"]
    if name == "set_cell":
        # an element edit through the array the public getter returns: h.frequencies[idx] = v / h.errors2[idx] += v
        try:
            x = s.get(op["h"])
            a = x.frequencies if op["which"] == "frequencies" else x.errors2
            v = implnd.fl(op["v"])
            v = int(v) if a.dtype.kind in "iu" and float(v).is_integer() else v
            if op.get("how") == "add":
                a[tuple(op["idx"])] += v
            else:
                a[tuple(op["idx"])] = v
            return "ok"
        except Exception as e:
            log.append(f"{name}: {type(e).__name__}: {e}"[:200])
            return implnd.REFUSED
    if name in ("div_array", "mul_inf"):
        # h / array under config.enable_free_arithmetics(); h * inf (inf * h, h *= inf), inside or outside free arithmetics
        from physt.config import config
        import contextlib
        try:
            x = s.get(op["h"])
            with (config.enable_free_arithmetics() if op.get("free") else contextlib.nullcontext()):
                if name == "div_array":
                    r = x / np.array([implnd.fl(v) for v in op["arr"]], dtype=float).reshape(x.shape)
                else:
                    c = float("inf") * op.get("sign", 1)
                    if op.get("how") == "imul":
                        r = x.copy()
                        r *= c
                    else:
                        r = (c * x) if op.get("how") == "rmul" else (x * c)
            s.set(op["out"], r)
            return "ok"
        except Exception as e:
            log.append(f"{name}: {type(e).__name__}: {e}"[:200])
            return implnd.REFUSED
    if name == "of_arrays" and op.get("nonfinite"):
        try:
            axes = [implnd.mk_binning(b) for b in op["axes"]]
            shape = tuple(len(b["bins"]) if b["t"] == "static" else b["count"] for b in op["axes"])
            dt = np.dtype(op["dtype"])
            f = arr_nf(op["freq"], dt).reshape(shape)
            e = None if op.get("err2") is None else arr_nf(op["err2"], dt).reshape(shape)
            klass = implnd.Histogram2D if len(axes) == 2 else implnd.HistogramND
            kw = {} if op.get("names") is None else {"axis_names": op["names"]}
            s.set(op["out"], klass(axes, f, errors2=e, missed=implnd.fl(op.get("missed", "0")), keep_missed=op.get("keep", True), **kw))
            return "ok"
        except KeyError:
            raise
        except Exception as e:
            log.append(f"{name}: {type(e).__name__}: {e}"[:200])
            return implnd.REFUSED
    if name not in ("of_special", "facade"):
        return implnd.step(s, op, log)
    from physt import special_histograms as sp
    try:
        kw = {}
        if op.get("names") is not None and op.get("named_by") == "kwarg":
            kw["axis_names"] = tuple(op["names"])
        if name == "of_special":
            klass = getattr(sp, op["class"])
            axes = [implnd.mk_binning(b) for b in op["axes"]]
            shape = tuple(len(b["bins"]) for b in op["axes"])
            dt = np.dtype(op["dtype"])
            mk = arr_nf if op.get("nonfinite") else implnd.arr_exact
            f = mk(op["freq"], dt).reshape(shape)
            e = None if op.get("err2") is None else mk(op["err2"], dt).reshape(shape)
            r = klass(axes, f, errors2=e, missed=implnd.fl(op.get("missed", "0")), keep_missed=op.get("keep", True), **kw)
        else:
            P = np.array([[implnd.fl(v) for v in p] for p in op["points"]], dtype=float)
            w = None if op.get("weights") is None else np.array([implnd.fl(v) for v in op["weights"]], dtype=float)
            bins = {k: (v if isinstance(v, int) else [implnd.fl(x) for x in v]) for k, v in op["bins"].items()}
            fn = getattr(sp, op["fn"])
            r = fn(P[:, 0], P[:, 1], weights=w, **bins, **kw) if op["fn"] == "polar" else fn(P, weights=w, **bins, **kw)
        if op.get("names") is not None and op.get("named_by") == "setter":
            r.axis_names = tuple(op["names"])
        s.set(op["out"], r)
        return "ok"
    except KeyError:
        raise
    except Exception as e:
        log.append(f"{name}: {type(e).__name__}: {e}"[:200])
        return implnd.REFUSED


def snap9(x):
    """implnd.snapn plus the axis names as they are (snapn turns a None name into the string 'None')"""
    d = implnd.snapn(x)
    d["_raw_names"] = [n if isinstance(n, str) else None for n in x.axis_names]
    return d


def state_key(x):
    """everything implnd.snapn / snap9 read from a histogram, as bytes and small values (None if it cannot be read)"""
    try:
        f, e = np.asarray(x.frequencies), np.asarray(x.errors2)
        bs = [x.binning] if isinstance(x, implnd.Histogram1D) else list(x.binnings)
        return (type(x).__name__, f.tobytes(), str(f.dtype), f.shape, e.tobytes(), str(e.dtype), e.shape, repr(x.missed),
                bool(x.keep_missed), str(x.dtype), tuple(x.axis_names), int(x.ndim), bool(x.is_adaptive()),
                tuple((type(b).__name__, np.asarray(b.bins).tobytes(), bool(b.is_adaptive())) for b in bs), implnd.meta_repr(x))
    except Exception:
        return None


def raw_names(reg):
    r = reg.get("_raw_names")
    return list(reg["names"]) if r is None else list(r)


def find_axis(a, names):
    """position of the axis reference in a histogram with these (raw) names, None if there is no such axis"""
    if isinstance(a, str):
        return names.index(a) if a in names else None
    return a if 0 <= a < len(names) else None


def unnamed(n):
    return n is None or n == ""


def name_kept(got, exp):
    """is `got` the name of a kept axis whose name was `exp`?  A named axis keeps its name; for an axis without a name the
    property pins nothing beyond its staying without one (physt shows '' / None, or the default label 'axis<i>')"""
    if unnamed(exp):
        return unnamed(got) or (isinstance(got, str) and got.startswith("axis") and got[4:].isdigit())
    return got == exp


class C09(HistNProp):
    ID = "C09"
    N_QUICK = 400
    N_THOROUGH = 10000
    RULE = ("ND histograms (d = 2..4, 1-4 bins per axis, asymmetric shapes, arbitrary contents / errors, named or default axes) x "
            "projection onto every kind of axis list (indices or names, any order), a second projection of the result, direct "
            "construction from the kept columns, T and T.T (d = 2), accumulate(axis), and the refused axis lists (empty, duplicate, "
            "out of range, negative, unknown name). Thorough: all non-empty proper subsets in every order for d <= 4. "
            "Refusals in every spelling (every case one, every 4th case four more, at any position of the history, on the parent "
            "and on its 2-d / 3-d projection): lists naming one axis twice by index + name, name + index or the same way twice, "
            "inside longer lists (up to d + 1 entries), lists with an axis the histogram does not have (index >= d, negative, "
            "unknown / empty / differently cased name, the default name of a renamed axis, a digit string), the empty list, and "
            "the one-axis calls accumulate / select / merge_bins(axis=) / partial_normalize with such an axis; the oracle decides "
            "from the axis names and the dimension alone whether a list has to be refused. "
            "Narrow content types (every 8th case, every 2nd case of the failing-input search, and as neighbours of a "
            "disagreeing case): int16 / int32 / float16 / float32 parents built from arrays of that type or converted by "
            "set_dtype / the dtype property, contents and squared errors near the type's limits, so that marginals and running "
            "sums of the integer types exceed the parent type's range (float contents lie on a grid on which all sums are exact "
            "and in range); expected values are sums of python Fractions. "
            "Integers beyond 2**53 (stream:beyond53, every 8th case, every 4th case of the failing-input search, neighbours of a "
            "disagreeing case, and in thorough all axis lists in every order for d <= 4): int64 parents whose contents and / or "
            "squared errors need more than 53 bits (odd numbers beyond 2**53, 2**60 + 3, ...; all sums inside int64) built from "
            "explicit arrays of exact integers (explicit; uint64 arrays, which physt stores as int64, oracle only), as a counting "
            "histogram times a large python integer (scaled: squared errors n*c*c ~ 1e16), or filled event by event with large "
            "integer weights (filled; with the histogram filled directly from the kept columns next to the projection), missed "
            "weights beyond 2**53; float64 parents of large numbers on a power-of-two grid on which every sum is exact "
            "(f64_grid); float32 parents of mixed large magnitude whose sums are rounded (f32_rounded: oracle and "
            "correspondence at relative 1e-5). All numbers travel as exact integer / rational strings, never through a float. "
            "Transformed classes (stream:transformed, every 16th case): polar / spherical / spherical-surface / cylindrical / "
            "cylindrical-surface parents built from arrays (through the model as an ND histogram over the same bins, contents "
            "and names) or by the facade functions (oracle only), with the class's default axis names, custom names given as "
            "keyword or through the axis_names setter, the names another class documents for the same coordinate ('r' / 'rho') "
            "or the class's own names on other axes; projection onto EVERY non-empty proper axis subset (to a specialised class "
            "or not) by name, by index and mixed, in any order; the 2-d results addressed again by the parent's names of the kept "
            "axes and by position: projection, accumulate, T (where the result is a Histogram2D) followed by projection / "
            "accumulate / T; single-axis calls (select, merge_bins, accumulate) by name next to the same call by the index of the "
            "axis carrying the name; refused: names the histogram does not carry (also those its class documents), one axis "
            "twice in both spellings, indices out of range. Oracle: names / bins / contents / errors of every projection are those "
            "of the kept axes of the histogram it was made from, a kept axis answers to the parent's name (addressed_by_name), "
            "all registers holding the same axes of the parent in the same order are equal (compose; T.T against the original), "
            "by name = by index (by_name_vs_index). "
            "Unusual axis names (stream:odd_names, every 16th case): plain 2-d .. 4-d parents with axes without a name ('' or "
            "None; first / between / last / several / all), names that look like integers ('1' on axis 0), like another axis' "
            "default name ('axis0' on axis 1), unicode, with blanks, the strings 'None' / 'nan', names of 100 .. 4000 characters "
            "differing in the last character or in length only; same calls and clauses as above. Not pinned: the label of an "
            "axis without a name in a result ('' / None / 'axis<i>'), whether '' / 'None' / 'axis<i>' address an unnamed axis "
            "(never generated). Axes named None and 1-d results whose only axis has no name: oracle only. "
            "Non-finite contents (stream:nonfinite, every 8th case; every 8th case of the failing-input search; thorough: 12 cases "
            "per route x plain / transformed class): float16 / float32 / float64 parents, plain and of the transformed classes, "
            "in which contents and / or squared errors are NaN or +inf -- given to the constructor (one NaN, one inf, NaN and "
            "inf / two inf / two NaN in one line, a whole NaN line, scattered; in the contents, the squared errors, both, or "
            "the contents with default squared errors), made by h / array with zeros under enable_free_arithmetics (0 / 0, "
            "x / 0), by h * inf (0 * inf), by filling with weights k * 2**510 whose squares add up beyond the float range, or "
            "by doubling cells at the top of the float range; projection onto every axis subset in every spelling, the "
            "results projected again, accumulate along every axis, T. Oracle in extended arithmetic (snapshots: None = NaN, "
            "'inf'): a sum with a NaN summand is NaN, inf + finite = inf, all-finite sums are exact (finite cells on a grid; an "
            "exact sum beyond the result type's largest number is inf), total of the projection = total of the parent. Oracle "
            "only unless every cell came out finite. Parents with negative cells (array with negative entries, h * -inf, under "
            "free arithmetics): a refusal of projection / accumulate / T that leaves the histogram untouched is accepted (the "
            "library refuses negative contents outside free arithmetics), a returned result must be the sums. "
            "Thorough: every transformed class x every kind of names, every name pattern x d = 2, 3, 4 (4 cases each). "
            "non-trivial = non-zero contents and at least one axis with > 1 bin dropped; distinct = op-list hash")
    FIELDS = {"bins", "shape", "freq", "err2", "total", "dtype", "names", "ndim"}

    def gen_case(self, rng, k, tier):
        narrow = (k % 8 == 3) or (tier == "search" and k % 2 == 1)
        big = ENABLE_BEYOND53 and ((k % 8 == 6) or (tier == "search" and k % 4 == 2))
        if ENABLE_REPROJECT and k % 16 == 2:
            return build_reproject(rng)
        if ENABLE_TRANSFORMED and (k % 16 == 0 or (tier == "search" and k % 16 == 4)):
            return self.gen_transformed(rng)
        if ENABLE_ODD_NAMES and (k % 16 == 8 or (tier == "search" and k % 16 == 12)):
            return self.gen_odd_names(rng)
        if ENABLE_NONFINITE and (k % 16 in (7, 15) or (tier == "search" and k % 8 == 7)):
            return self.gen_nonfinite(rng)
        extra = {}
        if narrow:
            setup, axes, tags = rand_narrow_ops(rng)
        elif big:
            setup, axes, tags, extra = rand_big_ops(rng)
        else:
            init, axes = rand_nd_op(rng)
            setup, tags = [init], []
        return self.build(rng, setup, axes, tags=tags, many_refusals=(k % 4 == 1), extra=extra)

    def build(self, rng, setup, axes, subset=None, tags=(), many_refusals=False, extra=None):
        if isinstance(setup, dict):
            setup = [setup]
        init = setup[0]
        d = len(axes)
        ops = list(setup)
        custom = init["names"] is not None
        names = init["names"] or [f"axis{i}" for i in range(d)]
        if subset is None:
            m = rng.randint(1, d - 1)
            subset = rng.sample(range(d), m)
        ref = lambda i: names[i] if rng.random() < 0.4 else i
        ops.append({"op": "projection", "h": 0, "axes": [ref(i) for i in subset], "out": 1})
        kept = sorted(subset)
        if len(kept) >= 2:
            sub2 = rng.sample(range(len(kept)), rng.randint(1, len(kept) - 1))
            knames = [names[i] for i in kept]
            ops.append({"op": "projection", "h": 1, "axes": [knames[j] if rng.random() < 0.4 else j for j in sub2], "out": 2})
            # the same final axes directly from the parent
            final = sorted(kept[j] for j in sub2)
            ops.append({"op": "projection", "h": 0, "axes": final, "out": 3})
        extra = dict(extra or {})
        if extra.pop("events", False):
            # the histogram built directly from the kept columns of the same events (register 9)
            ops.append({"op": "empty", "out": 9, "axes": [init["axes"][i] for i in kept], "names": [names[i] for i in kept],
                        "keep": True, "dtype": init.get("dtype", "int64")})
            for o in setup[1:]:
                if o["op"] == "fill":
                    ops.append({"op": "fill", "h": 9, "v": [o["v"][i] for i in kept], "w": o["w"], "wk": o["wk"]})
        if d == 2:
            ops.append({"op": "T", "h": 0, "out": 4})
            ops.append({"op": "T", "h": 4, "out": 5})
        ax = rng.randrange(d)
        ops.append({"op": "accumulate", "h": 0, "axis": names[ax] if rng.random() < 0.3 else ax, "out": 6, "_axis": ax})
        tags = list(tags) + [f"d:{d}", f"keep:{len(kept)}"]
        # --- calls that have to be refused
        if rng.random() < 0.25:
            what = rng.choice(["proj_none", "proj_dup", "proj_range", "proj_name", "proj_neg", "acc_range"])
            ops.append({"op": "invalid", "what": what, "h": 0})
            n_ref = 0
        else:
            n_ref = 1
        if many_refusals:
            n_ref += 4
            tags.append("refusal_stream")
        for _ in range(n_ref):
            r = rng.random()
            if r < 0.15 and len(kept) >= 2:
                # on the projection (register 1, a 2-d / 3-d histogram with the kept axes' names)
                knames = [names[i] for i in kept]
                lst, kind = bad_axis_list(rng, knames, len(kept), custom)
                op = {"op": "projection", "h": 1, "axes": lst, "out": 7, "expect": "refused"}
                lo = next(i for i, o in enumerate(ops) if o.get("out") == 1) + 1
                tags.append("refuse_on_projection")
            elif r < 0.7:
                lst, kind = bad_axis_list(rng, names, d, custom)
                op = {"op": "projection", "h": 0, "axes": lst, "out": 7, "expect": "refused"}
                lo = len(setup)
            else:
                b = bad_axis(rng, names, d, custom)
                call = rng.choice(["accumulate", "select", "merge"] + (["partial_normalize"] if d == 2 else []))
                op = {"op": call, "h": 0, "axis": b, "out": 8, "expect": "refused"}
                if call == "select":
                    op["index"] = 0
                if call == "merge":
                    op["amount"] = 1
                kind = f"{call}_bad_axis"
                lo = len(setup)
            tags.append(f"refuse:{kind}")
            ops.insert(rng.randint(lo, len(ops)), op)        # anywhere in the history
        return dict({"kind": "histn", "ops": ops, "tags": tags, "subset": list(subset), "setup": len(setup)}, **extra)

    def gen_transformed(self, rng, klass=None, names_kind=None):
        """stream:transformed -- a polar / spherical / spherical-surface / cylindrical / cylindrical-surface parent with the
        class's default names, custom names, the names another class documents for the same coordinates, or its own names on
        other axes; every projection (to a specialised class or not), and the results addressed again by the parent's names"""
        setup, d, believed, tags, extra, plain = rand_special_ops(rng, klass, names_kind)
        return build_named(rng, setup, d, believed, tags, extra, plain2d=plain, parent_T=False, p_name=0.65,
                           unknown_on_results=["r", "rho", "phi", "theta", "z"])

    def gen_nonfinite(self, rng, route=None, transformed=None):
        """stream:nonfinite -- a float parent (plain or of a transformed class) some of whose contents / squared errors are
        NaN or inf (see the comment at ENABLE_NONFINITE); projection onto every axis subset, the 2-d / 3-d results projected
        again, accumulate along axes, T"""
        setup, d, names, tags, extra, plain, parent_T = rand_nonfinite_setup(rng, route, transformed)
        c = build_named(rng, setup, d, names, tags, extra, plain2d=plain, parent_T=parent_T, p_name=0.5)
        # running sums along every axis of the parent
        nxt = 1 + max([o["out"] for o in c["ops"] if isinstance(o.get("out"), int)] + [o.get("_twin", 0) for o in c["ops"]])
        for ax in range(d):
            c["ops"].append({"op": "accumulate", "h": 0, "axis": ax, "out": nxt + ax, "_axis": ax})
        return c

    def gen_odd_names(self, rng, d=None, pattern=None):
        """stream:odd_names -- a plain 2-d .. 4-d parent some of whose axes have no name ('' / None, before / between / after
        the named ones) or whose names look like integers, like another axis' default name, are unicode or very long"""
        init, axes = rand_nd_op(rng, d=d, names=False)
        names, pattern = odd_names(rng, len(axes), pattern)
        init["names"] = names
        tags = ["stream:odd_names", f"odd_names:{pattern}"]
        if any(n is None for n in names):
            tags.append("odd_names:None")
        if any(n == "" for n in names):
            tags.append("odd_names:empty_string")
        return build_named(rng, [init], len(axes), names, tags, {}, p_name=0.75)

    def run_impl(self, case):
        s = implnd.Store()
        outs, log = [], []
        if case.get("layout") == "named":
            # many registers, every one read after every step: a register whose whole public state (state_key) is what it was
            # at the last reading is not converted to rational strings again
            seen = {}
            n = len(case["ops"])

            def snap(x):
                key = state_key(x)
                hit = seen.get(id(x))
                if hit is None or key is None or hit[0] != key:
                    hit = (key, snap9(x))
                    seen[id(x)] = hit
                return hit[1]           # (snapshots are only read)
            for k, op in enumerate(case["ops"]):
                ret = step9(s, op, log)
                outs.append({"ret": ret, "regs": [None if x is None else snap(x) for x in s.regs],
                             "_sharing": implnd._sharing(s.regs) if k == n - 1 else []})
        for op in case["ops"] if not outs else []:
            ret = step9(s, op, log)
            outs.append({"ret": ret, "regs": [None if x is None else snap9(x) for x in s.regs], "_sharing": implnd._sharing(s.regs)})
        if self.UNOBSERVED and len(case["ops"]) >= 2:
            # the same history on fresh objects without reading anything between the operations (see implnd.run_unobserved)
            s2, log2, ret = implnd.Store(), [], None
            for op in case["ops"]:
                ret = step9(s2, op, log2)
            last = {"ret": ret, "regs": [None if x is None else snap9(x) for x in s2.regs], "_sharing": implnd._sharing(s2.regs)}
            return {"outs": outs, "log": log, "unobserved_outs": outs[:-1] + [last]}
        return {"outs": outs, "log": log}

    def model_case(self, case, io):
        # unsigned contents, parents made by the facade functions of the transformed classes, axes named None and 1-d
        # results whose only axis has no name are outside the model: those cases are judged by the oracle alone
        if case.get("no_model"):
            return None
        if case.get("reproject") and any(o.get("_mut") and o["op"] not in REPROJECT_MODEL_OPS for o in case["ops"]):
            return None         # (the driver has no element edits; the other in-place writers are judged by the oracle alone)
        if case.get("nonfinite") and (any(o["op"] in ("div_array", "mul_inf") for o in case["ops"]) or self.has_nonfinite(io)):
            return None
        if any(o["op"] == "facade" for o in case["ops"]):
            return None
        if any(o["op"] == "of_special" for o in case["ops"]):
            # a histogram of a transformed class built from arrays: the model's ND histogram over the same bins, contents and
            # names (the class's documented default names where none were given) -- TransformedHistogramMixin.projection is
            # HistogramND.projection apart from the class of the result, which is not compared
            c = copy.deepcopy(case)
            for o in c["ops"]:
                if o["op"] == "of_special":
                    o["op"] = "of_arrays"
                    if o.get("names") is None:
                        o["names"] = list(SPECIAL[o["class"]]["defaults"])
            return c
        return case

    @staticmethod
    def has_nonfinite(io):
        try:
            return any(nonfinite_entry(v) for o in io["outs"] for r in o["regs"] if r is not None
                       for v in list(r["freq"]) + list(r["err2"]) + [r["total"], r["missed"]])
        except Exception:
            return True

    def exhaustive_cases(self, tier):
        if tier != "thorough":
            return
        import random
        rng = random.Random(9)
        for d in (2, 3, 4):
            init, axes = rand_nd_op(rng, d=d, maxbins=3)
            for m in range(1, d):
                for sub in itertools.permutations(range(d), m):
                    c = self.build(rng, init, axes, subset=list(sub))
                    c["tags"].append("exhaustive_axis_lists")
                    yield c
        if ENABLE_TRANSFORMED:
            # every transformed class with every kind of axis names (each case projects onto every axis subset)
            for klass in SPECIAL:
                for nk in ("default", "default_explicit", "custom", "other_class_default", "defaults_permuted"):
                    for _ in range(4):
                        c = self.gen_transformed(rng, klass, nk)
                        c["tags"].append("exhaustive_classes_x_names")
                        yield c
        if ENABLE_ODD_NAMES:
            for d in (2, 3, 4):
                for pattern in ("unnamed_first", "unnamed_between", "unnamed_last", "unnamed_many", "unnamed_all", "digits",
                                "default_shifted", "unicode", "long", "mixed"):
                    for _ in range(4):
                        c = self.gen_odd_names(rng, d, pattern)
                        c["tags"].append("exhaustive_name_patterns")
                        yield c
        if ENABLE_NONFINITE:
            for route in sorted(set(NF_ROUTES)):
                for tr in (False, True):
                    for _ in range(12):
                        c = self.gen_nonfinite(rng, route, tr)
                        c["tags"].append("exhaustive_nonfinite_routes")
                        yield c
        if not ENABLE_BEYOND53:
            return
        for d in (2, 3, 4):
            for route in ("explicit", "scaled", "filled"):
                setup, axes, tags, extra = rand_big_ops(rng, d=d, route=route)
                for m in range(1, d):
                    for sub in itertools.permutations(range(d), m):
                        c = self.build(rng, setup, axes, subset=list(sub), tags=tags, extra=extra)
                        c["tags"].append("exhaustive_axis_lists")
                        yield c

    def neighbours(self, case):
        """the same history on a parent stored as int16 / int32 with every bin near the type's maximum (marginals and
        running sums then exceed the parent type's range), directly and through set_dtype"""
        ops = case["ops"]
        ns = case.get("setup", 1)
        if case.get("reproject"):
            return
        if case.get("nonfinite"):
            # the same history with the cells of the parent (the non-finite ones among them) moved on by one / two places
            if ops and ops[0].get("op") in ("of_arrays", "of_special") and ops[0].get("nonfinite"):
                for shift in (1, 2):
                    c = copy.deepcopy(case)
                    for key in ("freq", "err2"):
                        v = c["ops"][0].get(key)
                        if v is not None:
                            c["ops"][0][key] = v[shift:] + v[:shift]
                    c["tags"] = list(c.get("tags", [])) + ["neighbour"]
                    yield c
            return
        if not ops or ops[0].get("op") != "of_arrays":
            return
        for dt, lim in INT_LIMIT.items():
            for variant in range(3):
                def near(vals, shift):
                    out = []
                    for i, v in enumerate(vals):
                        q = int(Fraction(v))
                        out.append(rs(lim - ((7 * q + 3 * i + shift) % 11) * (1 if variant == 0 else lim // 37)))
                    return out
                c = copy.deepcopy(case)
                init = c["ops"][0]
                init["freq"] = near(init["freq"], 0)
                if init.get("err2") is not None:
                    init["err2"] = near(init["err2"], 5)
                if init.pop("missed_kind", None) or Fraction(init.get("missed") or 0) > 4:
                    init["missed"] = "4"            # a missed weight of the beyond-2**53 stream does not fit the narrow type
                c.pop("no_model", None)
                c.pop("tolerance", None)
                rest = [o for o in c["ops"][ns:]]
                if variant == 2:
                    init["dtype"] = "int64"
                    c["ops"] = [init, {"op": "set_dtype", "h": 0, "dtype": dt}] + rest
                else:
                    init["dtype"] = dt
                    c["ops"] = [init] + rest
                c["setup"] = len(c["ops"]) - len(rest)
                c["tags"] = list(c.get("tags", [])) + [f"narrow:{dt}", "neighbour"]
                yield c
        if not ENABLE_BEYOND53:
            return
        # the same history on an int64 parent whose contents and / or squared errors are odd numbers beyond 2**53
        n0 = len(ops[0]["freq"])
        longest = max(len(b["bins"]) if b["t"] == "static" else b["count"] for b in ops[0]["axes"])
        for variant in range(3):
            cap = (I64MAX // longest) // n0

            def beyond(vals, shift, cap=cap):
                return [rs(((cap - ((7 * int(Fraction(v)) + 3 * i + shift) % 11) * (1 if variant == 0 else cap // 37)) | 1) - 2)
                        for i, v in enumerate(vals)]
            c = copy.deepcopy(case)
            init = c["ops"][0]
            if variant != 2:
                init["freq"] = beyond(init["freq"], 0)
            else:
                init["freq"] = [rs(int(Fraction(v)) % 10) for v in init["freq"]]
            init["err2"] = beyond(init["err2"] if init.get("err2") is not None else init["freq"], 5, cap=I64MAX // n0)
            init["dtype"] = "int64"
            rest = [o for o in c["ops"][ns:]]
            c["ops"] = [init] + rest
            c["setup"] = 1
            c.pop("no_model", None)
            c.pop("tolerance", None)
            c["tags"] = [x for x in c.get("tags", []) if not x.startswith(("stream:", "narrow"))] + ["stream:beyond53:neighbour", "neighbour"]
            yield c

    def shrink_candidates(self, case):
        ops = case["ops"]
        ns = case.get("setup", 1)
        for k in range(len(ops) - 1, ns - 1, -1):
            if "out" in ops[k] and any(o.get("h") == ops[k]["out"] for o in ops[k + 1:]):
                continue
            c = copy.deepcopy(case)
            del c["ops"][k]
            yield c
        if case.get("layout") == "named":
            # (dropping whole calls keeps the bookkeeping of the remaining ones right; their axis lists stay as they are)
            # then: plain contents, no squared errors of its own, ordinary short names for the named axes that are long
            init = ops[0]
            if case.get("nonfinite"):
                # fewer non-finite cells, then plain finite ones; fewer fills; the case stays well-formed
                for key in ("freq", "err2"):
                    vals = init.get(key) if init["op"] in ("of_arrays", "of_special") else None
                    for i, v in enumerate(vals or []):
                        if init.get("nonfinite") and nonfinite_entry(v):
                            c = copy.deepcopy(case)
                            c["ops"][0][key][i] = "1"
                            yield c
                    if ns == 1 and init.get("nonfinite") and vals and any(not nonfinite_entry(v) and v not in ("0", "1") for v in vals):
                        c = copy.deepcopy(case)
                        c["ops"][0][key] = [v if nonfinite_entry(v) else "1" for v in vals]
                        yield c
                fills = [k for k in range(1, ns) if ops[k]["op"] == "fill"]
                for k in fills[::-1]:
                    c = copy.deepcopy(case)
                    del c["ops"][k]
                    c["setup"] = ns - 1
                    yield c
                return
            if init["op"] in ("of_arrays", "of_special"):
                if init.get("err2") is not None:
                    c = copy.deepcopy(case)
                    c["ops"][0]["err2"] = None
                    yield c
                simple = [rs(i + 1) for i in range(len(init["freq"]))]
                if init["freq"] != simple and init["dtype"] in ("int64", "float64"):
                    c = copy.deepcopy(case)
                    c["ops"][0]["freq"] = simple
                    yield c
            return
        for k in range(ns, len(ops)):
            if ops[k]["op"] == "projection" and not any(o.get("h") == ops[k].get("out") for o in ops[k + 1:]):
                # (a projection whose result is used later keeps its axes: the later calls were written for that result)
                for j in range(len(ops[k]["axes"])):
                    c = copy.deepcopy(case)
                    del c["ops"][k]["axes"][j]
                    yield c
        if any(t.startswith("stream:beyond53") for t in case.get("tags", [])):
            # fewer events (the directly filled copy loses the same event), then smaller cells; the case stays well-formed
            fills = [k for k in range(1, ns) if ops[k]["op"] == "fill"]
            for n, k in enumerate(fills):
                c = copy.deepcopy(case)
                twins = [j for j in range(ns, len(ops)) if ops[j]["op"] == "fill" and ops[j].get("h") == 9]
                if len(twins) == len(fills):
                    del c["ops"][twins[n]]
                del c["ops"][k]
                c["setup"] = ns - 1
                yield c
            if ops[0]["op"] == "of_arrays":
                for key in ("err2", "freq"):
                    vals = ops[0].get(key)
                    if vals is None:
                        continue
                    if any(v != "0" for v in vals):
                        c = copy.deepcopy(case)
                        c["ops"][0][key] = ["0" if i % 2 else v for i, v in enumerate(vals)]
                        if c["ops"][0][key] != vals:
                            yield c
                    for i, v in enumerate(vals):
                        if v not in ("0", "1"):
                            c = copy.deepcopy(case)
                            c["ops"][0][key][i] = "0"
                            yield c

    SPECIALISED = ("RadialHistogram", "AzimuthalHistogram", "PolarHistogram", "SphericalSurfaceHistogram", "CylindricalSurfaceHistogram")

    def tags(self, case, io):
        t = super().tags(case, io)
        if case.get("nonfinite"):
            try:
                src = io["outs"][case.get("setup", 1) - 1]["regs"][0]
                for key in ("freq", "err2"):
                    A = obj_arr(src[key], src["shape"])
                    ks = {x.k for x in A.ravel() if isinstance(x, Ext)}
                    t += [f"nonfinite:{k}_cell_in_{key}" for k in sorted(ks)]
                    if not ks:
                        t.append(f"nonfinite:{key}_all_finite")
                    for ax in range(src["ndim"]):
                        lines = np.moveaxis(A, ax, -1).reshape(-1, src["shape"][ax])
                        for ln in lines:
                            kk = [x.k for x in ln if isinstance(x, Ext)]
                            if "nan" in kk and len(kk) < len(ln):
                                t.append(f"nonfinite:{key}_line_with_nan_and_finite_summands")
                            if "nan" in kk and "inf" in kk:
                                t.append(f"nonfinite:{key}_line_with_nan_and_inf")
                            if kk.count("inf") >= 2:
                                t.append(f"nonfinite:{key}_line_with_two_inf")
                    if any(Fraction(v) < 0 for v in src[key] if not nonfinite_entry(v)) or "-inf" in ks:
                        t.append(f"nonfinite:negative_cell_in_{key}")
                t = sorted(set(t))
                if any(o["ret"] == "REFUSED" and not op.get("expect") and op["op"] in ("projection", "accumulate", "T")
                       for o, op in zip(io["outs"], case["ops"])):
                    t.append("nonfinite:refusal_of_negative_result_accepted")
            except Exception:
                pass
        if case.get("layout") == "named":
            try:
                last = io["outs"][-1]["regs"]
                kinds = {("specialised" if r["_class"] in self.SPECIALISED else "plain") for r in last[1:] if r is not None}
                if any("stream:transformed" == x for x in case.get("tags", [])):
                    t += [f"transformed:{k}_class_result" for k in sorted(kinds)]
                if any(o.get("_axes") and o["h"] != 0 and any(isinstance(a, str) for a in o["axes"]) for o in case["ops"]):
                    t.append("result_addressed_by_parent_name")
            except Exception:
                pass
        try:
            src = io["outs"][case.get("setup", 1) - 1]["regs"][0]
            lim = self.DTYPE_LIMITS.get(src["dtype"])
            if lim is not None and src["dtype"] != "int64":
                F = obj_arr(src["freq"], src["shape"])
                if any(x > lim for ax in range(src["ndim"]) for x in np.asarray(F.sum(axis=ax), dtype=object).ravel()):
                    t.append("marginal_exceeds_parent_dtype_range")
            if src["dtype"] == "int64":
                # what the parent really holds after the setup ops (not what the generator meant to produce)
                for key in ("freq", "err2"):
                    A = obj_arr(src[key], src["shape"])
                    if any(x > TWO53 for x in A.ravel()):
                        t.append(f"int64_cell_beyond_2**53:{key}")
                    sums = [x for ax in range(src["ndim"]) for x in np.asarray(A.sum(axis=ax), dtype=object).ravel()]
                    if any(Fraction(float(x)) != x for x in sums):
                        t.append(f"int64_marginal_not_a_float64:{key}")
                if Fraction(src["missed"] or 0) > TWO53:
                    t.append("int64_missed_beyond_2**53")
        except Exception:
            pass
        return t

    def oracle(self, case, io):
        outs, ops = io["outs"], case["ops"]
        ns = case.get("setup", 1)
        fails = []
        if outs[0]["ret"] == "REFUSED":
            return ["refused_valid: setup refused: " + "; ".join(io["log"][:2])]
        src = outs[ns - 1]["regs"][0]       # the parent as it is after the setup ops (construction, change of content type)
        d = src["ndim"]
        F = obj_arr(src["freq"], src["shape"])
        E = obj_arr(src["err2"], src["shape"])

        def resolve(a, nm):
            return nm.index(a) if isinstance(a, str) else a

        named = case.get("layout") == "named"
        # the generator's bookkeeping of the named layout is read only if the parent reports the names it was given
        believed = named and raw_names(src) == list(case.get("_names") or [])

        def flat(a):
            return list(np.asarray(a, dtype=object).ravel())

        # float32 parents of the tolerance stream: every sum may be rounded (at float32 precision); everything else exact
        tol = Fraction(1, 10**5) if case.get("tolerance") else None
        reproject = bool(case.get("reproject"))
        if case.get("reproject_tol"):
            tol = Fraction(1, 10**12)       # quotients of normalize / partial_normalize: sums of them are rounded

        nonfinite = bool(case.get("nonfinite"))

        def same(got, exp, dtype=None):
            got, exp = [xval(x) for x in got], [xval(x) for x in exp]
            if nonfinite and dtype in FLOAT_MAX:
                # a finite exact sum beyond the largest number of the result's float type is inf there (all such sums of
                # this stream lie on a grid far coarser than the rounding at the top of the range)
                exp = [x if isinstance(x, Ext) or x <= FLOAT_MAX[dtype] else XINF for x in exp]
            if len(got) != len(exp):
                return False
            if tol is None:
                return got == exp
            return all((a == b) if isinstance(a, Ext) or isinstance(b, Ext) else abs(a - b) <= tol * max(abs(a), abs(b))
                       for a, b in zip(got, exp))

        def negative_cells(reg):
            return any(v == "-inf" or (not nonfinite_entry(v) and Fraction(v) < 0) for v in list(reg["freq"]) + list(reg["err2"]))

        def bits(vals):
            """how the exact sums compare with what float64 can hold (for the reader of a failure)"""
            if any(isinstance(x, Ext) for x in vals):
                return " [NaN: some summand is NaN; inf: some summand is inf]"
            big = [x for x in vals if Fraction(float(x)) != x]
            return f" [{len(big)} of the exact sums are integers that float64 cannot hold]" if big else ""

        for k, op in enumerate(ops):
            if k < ns:
                continue
            ret = outs[k]["ret"]
            regs = outs[k]["regs"]
            before = outs[k - 1]["regs"]
            if reproject:
                # the parent is changed only by the ops meant to change it; results already returned stay what they were
                if not op.get("_mut") and regs[0] != before[0]:
                    fails.append(f"source_modified: step {k} ({op['op']}) modified the parent")
                for r_ in range(1, len(before)):
                    if before[r_] is not None and regs[r_] != before[r_] and op.get("out") != r_:
                        f_ = next((f for f in sorted(before[r_]) if before[r_][f] != regs[r_].get(f)), "?")
                        fails.append(f"earlier_result_changed: step {k} ({op['op']} on the parent) changed {self.path(case, r_)}, "
                                     f"returned earlier, in {f_}: {before[r_].get(f_)} -> {regs[r_].get(f_)}")
                        break
                if op.get("_mut"):
                    continue        # what the change does to the parent is other properties' business
            elif regs[0] != src:
                fails.append(f"source_modified: step {k} ({op['op']}) modified the parent")
            if op["op"] == "invalid":
                if ret != "REFUSED":
                    fails.append(f"accepted_invalid: {op['what']} accepted")
                continue
            # the histogram the call is made on, as observed before the call
            par = before[op["h"]] if isinstance(op.get("h"), int) and op["h"] < len(before) else None
            if par is None:
                continue
            pn = raw_names(par)
            if op["op"] in ("projection", "accumulate", "select", "merge", "partial_normalize"):
                lst = op["axes"] if op["op"] == "projection" else [op["axis"]]
                intent = None
                if believed and op.get("expect") != "refused":
                    intent = op.get("_axes") if op["op"] == "projection" else ([op["_axis"]] if "_axis" in op else None)
                if isinstance(intent, list) and len(intent) == len(lst) and len(set(intent)) == len(intent) and \
                        all(isinstance(q, int) and 0 <= q < par["ndim"] for q in intent):
                    # every reference by name is the PARENT's name of an axis this histogram kept (at position q): the
                    # histogram must carry that name on that axis
                    lost = [(a, q) for a, q in zip(lst, intent) if find_axis(a, pn) != q]
                    if lost:
                        a, q = lost[0]
                        at = find_axis(a, pn)
                        call = f"projection{tuple(lst)}" if op["op"] == "projection" else f"{op['op']}({lst[0]!r})"
                        fails.append(f"addressed_by_name: {call} of {self.path(case, op['h'])}, a {par['ndim']}-d histogram whose axes "
                                     f"are reported as {pn} (the parent's axes are {raw_names(src)}): {a!r} is the parent's name of "
                                     f"the axis kept at position {q}, " + ("but no axis of the histogram carries it" if at is None
                                                                            else f"but it is found on axis {at}")
                                     + (" -- the call was refused" if ret == "REFUSED" else ""))
                        continue
                why = axis_list_problem(lst, pn, par["ndim"])
                if why is not None:
                    if ret != "REFUSED":
                        got = regs[op["out"]] if op.get("out", 10**6) < len(regs) else None
                        what = "" if not got else f" and returned a {got['ndim']}-d histogram over {got['names']}"
                        call = f"projection{tuple(lst)}" if op["op"] == "projection" else f"{op['op']}(axis={lst[0]!r})"
                        fails.append(f"accepted_invalid: {call} of a {par['ndim']}-d histogram with axes {par['names']} was "
                                     f"accepted{what} although {why}")
                    if regs[op["h"]] != par:
                        fails.append(f"refused_modified: the refused call {op['op']} at step {k} changed the histogram")
                    continue
                if op["op"] in ("select", "merge", "partial_normalize"):
                    continue        # with an existing axis: other properties' business
            if ret == "REFUSED" and nonfinite and negative_cells(par) and op["op"] in ("projection", "accumulate", "T"):
                # a histogram with negative contents (made under free arithmetics): the library refuses results with negative
                # contents outside free arithmetics; the refusal must leave the histogram as it was
                if regs[op["h"]] != par:
                    fails.append(f"refused_modified: the refused call {op['op']} at step {k} changed the histogram")
                continue
            if ret == "REFUSED":
                fails.append(f"refused_valid: {op} of the {par['dtype']} histogram {par['freq']} (shape {par['shape']}, axes "
                             f"{pn}) refused: " + "; ".join(io["log"][:2]))
                continue
            if op["op"] == "projection":
                pd = par["ndim"]
                PF = obj_arr(par["freq"], par["shape"])
                PE = obj_arr(par["err2"], par["shape"])
                axs = sorted(resolve(a, pn) for a in op["axes"])
                drop = tuple(i for i in range(pd) if i not in axs)
                r = regs[op["out"]]
                ef = PF.sum(axis=drop) if drop else PF
                ee = PE.sum(axis=drop) if drop else PE
                if not same(r["freq"], flat(ef), r["dtype"]):
                    whose = f" {self.path(case, op['h'])} with axes {pn}," if named else ""
                    fails.append(f"marginal: projection{tuple(op['axes'])} of the {par['dtype']} histogram{whose} {par['freq']} (shape "
                                 f"{par['shape']}): contents {r['freq']} are not the sums over the dropped axes "
                                 f"{[str(x) for x in flat(ef)]}{bits(flat(ef))}")
                if not same(r["err2"], flat(ee), r["dtype"]):
                    fails.append(f"marginal_err2: projection{tuple(op['axes'])} of the {par['dtype']} histogram with squared errors "
                                 f"{par['err2']} (shape {par['shape']}): squared errors {r['err2']} are not the sums over "
                                 f"the dropped axes {[str(x) for x in flat(ee)]}{bits(flat(ee))}")
                if r["bins"] != [par["bins"][i] for i in axs]:
                    fails.append(f"proj_bins: projection{tuple(op['axes'])} bins are not those of axes {axs} in original order")
                rn = raw_names(r)
                if len(rn) != len(axs) or not all(name_kept(g, pn[i]) for g, i in zip(rn, axs)):
                    fails.append(f"proj_names: projection{tuple(op['axes'])} of {self.path(case, op['h'])} (a {par.get('_class')} with "
                                 f"axes {pn}) has axis names {rn}, the kept axes {axs} are named {[pn[i] for i in axs]}")
                if not same([r["total"]], [par["total"]]):
                    fails.append(f"proj_total: total changed from {par['total']} to {r['total']}")
                elif not same([r["total"]], [sum(flat(PF), Fraction(0))], r["dtype"]):
                    fails.append(f"proj_total_exact: the total {r['total']} of projection{tuple(op['axes'])} is not the sum "
                                 f"{sum(flat(PF), Fraction(0))} of the parent's contents {par['freq']}")
                if r["ndim"] != len(axs):
                    fails.append("proj_ndim")
            if op["op"] == "accumulate" and (op["h"] == 0 or named):
                ax = resolve(op["axis"], pn)
                r = regs[op["out"]]
                AF = obj_arr(par["freq"], par["shape"])
                cs = np.cumsum(AF, axis=ax)
                if not same(r["freq"], flat(cs), r["dtype"]):
                    fails.append(f"accumulate: accumulate({op['axis']!r}) of the {par['dtype']} histogram {par['freq']} (shape "
                                 f"{par['shape']}, axes {pn}) gives {r['freq']}, not the running sums along axis {ax} "
                                 f"{[str(x) for x in flat(cs)]}")
                elif r["shape"] == par["shape"]:
                    # last cumulative entry = marginal over that axis
                    lastslice = flat(np.take(obj_arr(r["freq"], r["shape"]), -1, axis=ax))
                    if not same(lastslice, flat(AF.sum(axis=ax)), r["dtype"]):
                        fails.append(f"accumulate_last: the last entries of accumulate({op['axis']!r}) are not the marginal over axis {ax}")
                if r["bins"] != par["bins"] or raw_names(r) != pn:
                    fails.append("accumulate_bins: accumulate changed bins or names")
            if op["op"] == "T" and named and par["ndim"] == 2:
                t = regs[op["out"]]
                if t["bins"] != par["bins"][::-1] or raw_names(t) != pn[::-1]:
                    fails.append(f"T_bins_names: T of {self.path(case, op['h'])} (axes {pn}) does not swap bins and names: axes "
                                 f"{raw_names(t)}, bins {t['bins']}")
                TF, TE = obj_arr(par["freq"], par["shape"]).T, obj_arr(par["err2"], par["shape"]).T
                if [xval(x) for x in t["freq"]] != flat(TF) or [xval(x) for x in t["err2"]] != flat(TE):
                    fails.append(f"T_contents: T of {self.path(case, op['h'])} does not transpose contents / errors")
                if t["missed"] != par["missed"] or t["dtype"] != par["dtype"]:
                    fails.append(f"T_missed: T changed missed / dtype from {par['missed']} / {par['dtype']} to {t['missed']} / {t['dtype']}")
        last = outs[-1]["regs"]
        fails += self.direct_clause(case, outs, same)
        if named:
            fails += self.named_clauses(case, outs, believed)
            return fails[:6]
        if len(last) > 3 and last[2] is not None and last[3] is not None and self.same_final_axes(case, src):
            a, b = last[2], last[3]
            for f in ("bins", "names", "freq", "err2", "shape"):
                if a[f] != b[f] and not (f in ("freq", "err2") and same(a[f], b[f])):
                    fails.append(f"compose: projecting in two steps differs from projecting once in {f}: {a[f]} vs {b[f]}")
        if len(last) > 5 and last[4] is not None and last[5] is not None:
            t, tt = last[4], last[5]
            if t["bins"] != src["bins"][::-1] or t["names"] != src["names"][::-1]:
                fails.append("T_bins_names: T does not swap bins and names")
            if [Fraction(x) for x in t["freq"]] != list(np.asarray(F.T, dtype=object).ravel()) or \
               [Fraction(x) for x in t["err2"]] != list(np.asarray(E.T, dtype=object).ravel()):
                fails.append("T_contents: T does not transpose contents / errors")
            for f in ("bins", "names", "freq", "err2", "shape", "missed", "dtype"):
                if tt[f] != src[f]:
                    fails.append(f"T_involution: T.T differs from the original in {f}: {tt[f]} vs {src[f]}")
            if t["missed"] != src["missed"]:
                fails.append(f"T_missed: T changed missed from {src['missed']} to {t['missed']}")
        return fails[:6]

    @staticmethod
    def path(case, r):
        """how register r was obtained from the parent `h`, as an expression"""
        if r == 0:
            return "h"
        op = next((o for o in case["ops"] if o.get("out") == r and o.get("expect") != "refused"), None)
        if op is None:
            return f"<register {r}>"
        base = C09.path(case, op["h"]) if isinstance(op.get("h"), int) and op["h"] != r else "?"
        if op["op"] == "projection":
            return f"{base}.projection({', '.join(repr(a) for a in op['axes'])})"
        if op["op"] == "T":
            return base + ".T"
        if op["op"] == "select":
            return f"{base}.select({op['axis']!r}, {op.get('index')})"
        if op["op"] == "merge":
            return f"{base}.merge_bins({op.get('amount')}, axis={op['axis']!r})"
        return f"{base}.{op['op']}({op.get('axis')!r})"

    def named_clauses(self, case, outs, believed):
        """clauses of the `named` layout that relate several registers (read from the final state):
        * by name = by index: a call that names its axis gives what the same call gives with the index of the axis that
          carries the name (`_twin`), and is refused only if that one is;
        * projecting in steps = projecting once: all registers that hold the same axes of the parent in the same order
          (`_prov`: reached by one projection, by several, through T and T.T, in whatever spelling) are the same histogram."""
        ops, ns = case["ops"], case.get("setup", 1)
        last = outs[-1]["regs"]
        out = []
        pub = lambda reg: {k: v for k, v in reg.items() if not k.startswith("_")}
        live = lambda r: isinstance(r, int) and r < len(last) and last[r] is not None
        for k, op in enumerate(ops):
            if k < ns or "_twin" not in op or op.get("expect") == "refused":
                continue
            tk = next((j for j, o in enumerate(ops) if o.get("out") == op["_twin"] and j >= ns), None)
            if tk is None:
                continue
            tw = ops[tk]
            par = outs[k - 1]["regs"][op["h"]] if op["h"] < len(outs[k - 1]["regs"]) else None
            if par is None or tw["op"] != op["op"] or tw.get("h") != op["h"] or \
                    any(tw.get(f) != op.get(f) for f in ("index", "amount")):
                continue
            if not isinstance(op["axis"], str) or not isinstance(tw["axis"], int) or find_axis(op["axis"], raw_names(par)) != tw["axis"]:
                continue            # (not the same axis by the histogram's own names: the other clauses speak)
            ra, rb = outs[k]["ret"], outs[tk]["ret"]
            call = lambda a: f"{op['op']}({a!r}" + "".join(f", {op[f]}" for f in ("index", "amount") if f in op) + ")"
            where = f"{self.path(case, op['h'])} (axes {raw_names(par)}, shape {par['shape']})"
            if (ra == "REFUSED") != (rb == "REFUSED"):
                out.append(f"by_name_vs_index: {call(op['axis'])} of {where} was {'refused' if ra == 'REFUSED' else 'accepted'} but "
                           f"{call(tw['axis'])}, the axis carrying that name, was {'refused' if rb == 'REFUSED' else 'accepted'}")
            elif ra != "REFUSED" and live(op["out"]) and live(tw["out"]):
                a, b = pub(last[op["out"]]), pub(last[tw["out"]])
                if a != b:
                    f = next(f for f in sorted(a) if a[f] != b.get(f))
                    out.append(f"by_name_vs_index: {call(op['axis'])} of {where} differs from {call(tw['axis'])}, the axis carrying "
                               f"that name, in {f}: {a[f]} vs {b.get(f)}")
        if believed:
            groups = {}
            if last and last[0] is not None and case.get("_prov0") is not None:
                groups[tuple(case["_prov0"])] = [0]
            for k, op in enumerate(ops):
                if k >= ns and "_prov" in op and op.get("expect") != "refused" and outs[k]["ret"] != "REFUSED" and live(op.get("out")):
                    groups.setdefault(tuple(op["_prov"]) + ((("epoch", op["_epoch"]),) if "_epoch" in op else ()), []).append(op["out"])
            for prov, rs_ in groups.items():
                a = last[rs_[0]]
                for r in rs_[1:]:
                    b = last[r]
                    for f in ("bins", "names", "freq", "err2", "shape"):
                        if a[f] != b[f]:
                            out.append(f"compose: {self.path(case, rs_[0])} and {self.path(case, r)} both hold the parent's axes "
                                       f"{[q for q in prov if isinstance(q, int)]} but differ in {f}: {a[f]} vs {b[f]}")
                            break
        return out

    @staticmethod
    def same_final_axes(case, src):
        """do the two-step projection (registers 1, 2) and the one-step projection (register 3) of this case still ask for
        the same axes of the parent?  (a shrunk case may have lost an axis of one of the lists)"""
        try:
            pr = {o["out"]: o for o in case["ops"][case.get("setup", 1):]
                  if o["op"] == "projection" and o.get("expect") != "refused" and o.get("out") in (1, 2, 3)}
            nm = src["names"]
            res = lambda a, names: names.index(a) if isinstance(a, str) else a
            kept1 = sorted(res(a, nm) for a in pr[1]["axes"])
            two = sorted(kept1[res(a, [nm[i] for i in kept1])] for a in pr[2]["axes"])
            one = sorted(res(a, nm) for a in pr[3]["axes"])
            return pr[1]["h"] == 0 and pr[2]["h"] == 1 and pr[3]["h"] == 0 and two == one
        except Exception:
            return False

    def direct_clause(self, case, outs, same):
        """`filled` route: the projection (register 1) equals the histogram built directly from the kept columns of the
        same events (register 9) whenever no event missed the parent's bins.  The clause checks for itself that the two
        lists of events still correspond (a shrunk case may have lost some)."""
        ops, ns = case["ops"], case.get("setup", 1)
        last = outs[-1]["regs"]
        if len(last) <= 9 or last[1] is None or last[9] is None:
            return []
        proj = next((o for o in ops[ns:] if o["op"] == "projection" and o.get("out") == 1 and o.get("h") == 0), None)
        src = outs[ns - 1]["regs"][0]
        if proj is None or any(o["op"] != "fill" for o in ops[1:ns]) or ops[0]["op"] != "empty":
            return []
        if axis_list_problem(proj["axes"], src["names"], src["ndim"]) is not None:
            return []
        kept = sorted(src["names"].index(a) if isinstance(a, str) else a for a in proj["axes"])
        pf = [(o, outs[k]["ret"]) for k, o in enumerate(ops) if k < ns and o["op"] == "fill"]
        df = [(o, outs[k]["ret"]) for k, o in enumerate(ops) if k >= ns and o["op"] == "fill" and o.get("h") == 9]
        if len(pf) != len(df) or any(not isinstance(r, list) for _, r in pf + df):
            return []           # an event missed the bins (or was refused): the text promises nothing
        if any([a["v"][i] for i in kept] != b["v"] or a["w"] != b["w"] or a["wk"] != b["wk"] for (a, _), (b, _) in zip(pf, df)):
            return []
        p, q = last[1], last[9]
        out = []
        for f in ("bins", "names", "shape", "freq", "err2"):
            if p[f] != q[f] and not (f in ("freq", "err2") and same(p[f], q[f])):
                out.append(f"direct: projection{tuple(proj['axes'])} of the histogram filled with {[(a['v'], a['w']) for a, _ in pf]} "
                           f"differs in {f} from the histogram filled directly with the kept columns: {p[f]} vs {q[f]}")
        return out

    def nontrivial(self, case, io):
        try:
            s = io["outs"][case.get("setup", 1) - 1]["regs"][0]
            return any(nonfinite_entry(x) or Fraction(x) != 0 for x in s["freq"]) and any(n > 1 for n in s["shape"])
        except Exception:
            return False


PROP = C09()

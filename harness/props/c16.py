"""C16 — densities, bin geometry and cumulative values are consistent."""
from __future__ import annotations

import math
import warnings
from fractions import Fraction

import numpy as np

from .. import gen1
from ..core import nrs, rs
from ..runner import diff_outputs

warnings.simplefilter("ignore")

CLASSES = {
    "Histogram1D": 1, "RadialHistogram": 1, "AzimuthalHistogram": 1, "PolarHistogram": 2, "SphericalSurfaceHistogram": 2,
    "CylindricalSurfaceHistogram": 2, "SphericalHistogram": 3, "CylindricalHistogram": 3, "HistogramND": None, "Histogram2D": 2,
}
KIND = {  # coordinate kind of every axis
    "Histogram1D": ["x"], "RadialHistogram": ["r"], "AzimuthalHistogram": ["phi"], "PolarHistogram": ["r", "phi"],
    "SphericalSurfaceHistogram": ["theta", "phi"], "CylindricalSurfaceHistogram": ["phi", "z"],
    "SphericalHistogram": ["r", "theta", "phi"], "CylindricalHistogram": ["r", "phi", "z"],
}


def axis_edges(rng, kind, full, n=None):
    n = n or rng.randint(1, 4)
    if kind == "r":
        e = sorted({0.0 if (full or rng.random() < 0.5) else rng.uniform(0.1, 1)} | {rng.uniform(0.2, 5) for _ in range(n)})
    elif kind == "phi":
        hi = 2 * math.pi
        e = [0.0] + sorted(rng.uniform(0.1, hi - 0.1) for _ in range(n - 1)) + [hi] if full else sorted(rng.uniform(0, hi) for _ in range(n + 1))
    elif kind == "theta":
        hi = math.pi
        e = [0.0] + sorted(rng.uniform(0.1, hi - 0.1) for _ in range(n - 1)) + [hi] if full else sorted(rng.uniform(0, hi) for _ in range(n + 1))
    else:
        e = sorted(rng.uniform(-5, 5) for _ in range(n + 1))
    e = sorted(set(e))
    if len(e) < 2:
        e = [e[0], e[0] + 1.0]
    return e


def measure_py(klass, cell):
    """independent restatement of the bin measures (float math)"""
    if klass in ("Histogram1D", "AzimuthalHistogram"):
        (l, r), = cell
        return r - l
    if klass == "RadialHistogram":
        (l, r), = cell
        return math.pi * (r * r - l * l)
    if klass == "PolarHistogram":
        (r1, r2), (p1, p2) = cell
        return (r2 * r2 - r1 * r1) / 2 * (p2 - p1)
    if klass == "SphericalSurfaceHistogram":
        (t1, t2), (p1, p2) = cell
        return (math.cos(t1) - math.cos(t2)) * (p2 - p1)
    if klass == "CylindricalSurfaceHistogram":
        (p1, p2), (z1, z2) = cell
        return (p2 - p1) * (z2 - z1)
    if klass == "SphericalHistogram":
        (r1, r2), (t1, t2), (p1, p2) = cell
        return (r2 ** 3 - r1 ** 3) / 3 * (math.cos(t1) - math.cos(t2)) * (p2 - p1)
    if klass == "CylindricalHistogram":
        (q1, q2), (p1, p2), (z1, z2) = cell
        return (q2 * q2 - q1 * q1) / 2 * (p2 - p1) * (z2 - z1)
    m = 1.0
    for l, r in cell:
        m *= (r - l)
    return m


def factor_py(klass, kind, l, r):
    """the factor one axis of coordinate kind `kind` contributes to the measure of a cell of class `klass`"""
    if kind == "r":
        return (r ** 3 - l ** 3) / 3 if klass == "SphericalHistogram" else (r * r - l * l) / 2
    if kind == "theta":
        return math.cos(l) - math.cos(r)
    return r - l


def measure_by_kinds(klass, kinds, cell):
    """the measure of a cell of a transformed N-d class whose axes are listed in the order `kinds` (a permutation of
    KIND[klass]): every axis contributes the factor of ITS coordinate, wherever it stands"""
    m = 1.0
    for kd in KIND[klass]:                      # multiplied in the canonical order of the class
        l, r = cell[kinds.index(kd)]
        m *= factor_py(klass, kd, l, r)
    return m


def canonical(klass, kinds):
    """True when `kinds` says nothing else than the class: absent, or the canonical order of the class"""
    return not kinds or klass not in KIND or klass == "Histogram1D" or list(kinds) == KIND[klass]


# ---------------------------------------------------------------------------------------------------------------------
# stream "derived": the same clauses on DERIVED histograms and on histograms WITH A HISTORY of reads
# ---------------------------------------------------------------------------------------------------------------------
PLAIN = ("Histogram1D", "Histogram2D", "HistogramND")
# every geometry observable the property names; a read is {"what": <name>, "axis": <int>}
READS = ["sizes", "densities", "total", "widths", "left", "right", "centers", "bins", "mesh_widths", "mesh_centers", "cumulative"]
# the numpy-style edge representations (each of them computes -- and may keep -- the edge array of a binning); reading one
# of a histogram whose bins have a gap is legitimately refused ("might not be available for inconsecutive binnings")
EDGE_READS = ["edges", "numpy_bins", "bin_edges", "edge_mesh", "numpy_like", "binning_edges", "binning_repr", "consecutive",
              "first_last"]
# derivations by family (the family is drawn first, so that the rare kinds get their share)
FAMILIES = {
    "axes": ["T"],                                                             # same contents, axes re-arranged (Histogram2D)
    "same": ["copy", "mul", "div", "imul", "idiv", "add", "iadd", "normalize"],  # same bins, other contents
    "rebin": ["merge", "projection", "slice", "select"],                         # other bins
    "grow": ["fill"],                                                          # adaptive growth in place
}


# which axis subsets the transformed classes map to which class (used by the generator only, to visit every entry often)
PROJ_MAP = {
    "PolarHistogram": {(0,): "RadialHistogram", (1,): "AzimuthalHistogram"},
    "SphericalHistogram": {(1, 2): "SphericalSurfaceHistogram", (0,): "RadialHistogram"},
    "CylindricalSurfaceHistogram": {(0,): "AzimuthalHistogram"},
    "CylindricalHistogram": {(0,): "RadialHistogram", (1,): "AzimuthalHistogram", (0, 1): "PolarHistogram",
                             (1, 2): "CylindricalSurfaceHistogram"},
}


def fl(x):
    """observed number (rational string / None for NaN / 'inf') -> float"""
    if x is None:
        return math.nan
    if x in ("inf", "-inf"):
        return math.inf if x == "inf" else -math.inf
    a, _, b = x.partition("/")          # "n" or "n/d": int / int is correctly rounded, the same value as float(Fraction(x))
    return int(a) / int(b) if b else float(int(a))


def do_read(h, rd):
    """read one geometry observable of the histogram (the value is thrown away: only the history matters)"""
    w, a = rd["what"], rd.get("axis", 0)
    if w in EDGE_READS:
        b = h.binning if h.ndim == 1 else h.binnings[a % h.ndim]
        if w == "binning_edges":
            return b.numpy_bins
        if w == "binning_repr":
            return repr(b)
        if w == "consecutive":
            return b.is_consecutive()
        if w == "first_last":
            return b.first_edge, b.last_edge
        if w == "numpy_like":
            return h.numpy_like
        if w == "numpy_bins":
            return h.numpy_bins
        if w == "edges" or h.ndim == 1:
            return h.edges
        return h.get_bin_edges(a % h.ndim) if w == "bin_edges" else h.get_bin_edges()
    if h.ndim == 1:
        name = {"sizes": "bin_sizes", "densities": "densities", "total": "total_width", "widths": "bin_widths",
                "left": "bin_left_edges", "right": "bin_right_edges", "centers": "bin_centers", "bins": "bins",
                "mesh_widths": "bin_widths", "mesh_centers": "bin_centers", "cumulative": "cumulative_frequencies"}[w]
        return getattr(h, name)
    a = a % h.ndim
    if w in ("sizes", "densities", "bins"):
        return getattr(h, {"sizes": "bin_sizes", "densities": "densities", "bins": "bins"}[w])
    if w in ("total", "cumulative"):
        return h.total_size
    if w == "mesh_widths":
        return h.get_bin_widths()
    if w == "mesh_centers":
        return h.get_bin_centers()
    return {"widths": h.get_bin_widths, "left": h.get_bin_left_edges, "right": h.get_bin_right_edges, "centers": h.get_bin_centers}[w](a)


def _try(f):
    """a representation that may be legitimately unavailable (bins with a gap): its value, or the token REFUSED"""
    try:
        return f()
    except Exception as e:
        return "REFUSED: " + f"{type(e).__name__}: {e}"[:100]


def _nums(x):
    return x if isinstance(x, str) else [nrs(v) for v in np.asarray(x).ravel()]


def observe_edges(h):
    """every numpy-style edge representation of the histogram as it is now, per axis and in the mesh forms"""
    nd = h.ndim
    binnings = [h.binning] if nd == 1 else list(h.binnings)
    per_axis = []
    for a, b in enumerate(binnings):
        rep = {"edges": _nums(_try(lambda: h.edges if nd == 1 else h.edges[a])),
               "numpy_bins": _nums(_try(lambda: h.numpy_bins if nd == 1 else h.numpy_bins[a])),
               "numpy_like": _nums(_try(lambda: h.numpy_like[1] if nd == 1 else
                                        (h.numpy_like[1 + a] if len(h.numpy_like) == nd + 1 else h.numpy_like[1][a]))),
               "binning.numpy_bins": _nums(_try(lambda: b.numpy_bins)),
               "first": nrs(b.first_edge), "last": nrs(b.last_edge), "count": int(b.bin_count)}
        if nd > 1:
            rep["get_bin_edges"] = _nums(_try(lambda: h.get_bin_edges(a)))
        per_axis.append(rep)
    nl = _try(lambda: list(np.asarray(h.numpy_like[0]).shape))
    out = {"axes": per_axis, "numpy_like_freq_shape": nl}
    if nd > 1:
        for key, f in (("edge", h.get_bin_edges), ("left", h.get_bin_left_edges), ("right", h.get_bin_right_edges)):
            mesh = _try(f)
            if isinstance(mesh, str):
                out[key + "_mesh"] = mesh
            else:
                out[key + "_mesh"] = {"shapes": [list(np.asarray(m).shape) for m in mesh],
                                      "first": [nrs(np.asarray(m).ravel()[0]) for m in mesh],
                                      "last": [nrs(np.asarray(m).ravel()[-1]) for m in mesh]}
    return out


def observe_direct(h, own, kinds):
    """what a DIRECTLY constructed histogram of the same class over the same bins (listed in the canonical order of the class,
    the contents transposed accordingly) reports as bin measures -- given back in the axis order of `h`"""
    name, nd = type(h).__name__, h.ndim
    f = np.asarray(h.frequencies, dtype=float)
    try:
        if nd == 1:
            d = type(h)(own[0].copy(), f.copy())
            return {"sizes": _nums(d.bin_sizes), "total": nrs(d.total_width)}
        perm = list(range(nd))
        if name in KIND and kinds and sorted(kinds) == sorted(KIND[name]):
            perm = [list(kinds).index(kd) for kd in KIND[name]]
        kw = {"dimension": nd} if name == "HistogramND" else {}
        d = type(h)([own[p_].copy() for p_ in perm], np.transpose(f, perm).copy(), **kw)
        sizes = np.transpose(np.asarray(d.bin_sizes), np.argsort(perm))
        return {"sizes": _nums(sizes), "total": nrs(d.total_size), "perm": perm}
    except Exception as e:
        return {"error": f"{type(e).__name__}: {e}"[:160]}


def observe(h, kinds=None, direct=False):
    """every observable of the property, read from the histogram as it is now; `bins` are its own current bins.
    `kinds`: the coordinate kind of each of its axes when known from where the histogram comes from (by axis NAME)"""
    nd = h.ndim
    own = [np.asarray(h.bins).reshape(-1, 2)] if nd == 1 else [np.asarray(b).reshape(-1, 2) for b in h.bins]
    out = {"class": type(h).__name__, "bins": [[[nrs(l), nrs(r)] for l, r in b] for b in own],
           "freq_shape": list(np.asarray(h.frequencies).shape), "dtype": str(np.asarray(h.frequencies).dtype),
           "axis_names": [str(n) for n in h.axis_names]}
    if kinds is not None:
        out["kinds"] = list(kinds)
    if any(len(b) == 0 for b in own):
        out["empty"] = True
        return out
    out["edge_repr"] = observe_edges(h)
    if direct:
        out["direct"] = observe_direct(h, own, kinds)
    out.update({"bin_sizes": [nrs(x) for x in np.asarray(h.bin_sizes).ravel()],
                "densities": [nrs(x) for x in np.asarray(h.densities).ravel()],
                "freq": [nrs(x) for x in np.asarray(h.frequencies).ravel()],
                "total": nrs(h.total), "shape_sizes": list(np.asarray(h.bin_sizes).shape)})
    if nd == 1:
        out["total_width"] = nrs(h.total_width)
        out["left"] = [nrs(x) for x in h.bin_left_edges]
        out["right"] = [nrs(x) for x in h.bin_right_edges]
        out["centers"] = [nrs(x) for x in h.bin_centers]
        out["widths"] = [nrs(x) for x in h.bin_widths]
        out["cumulative"] = [nrs(x) for x in h.cumulative_frequencies]
        out["min_edge"], out["max_edge"] = nrs(h.min_edge), nrs(h.max_edge)
    else:
        out["total_size"] = nrs(h.total_size)
        out["left"] = [[nrs(x) for x in h.get_bin_left_edges(i)] for i in range(nd)]
        out["right"] = [[nrs(x) for x in h.get_bin_right_edges(i)] for i in range(nd)]
        out["centers"] = [[nrs(x) for x in h.get_bin_centers(i)] for i in range(nd)]
        out["widths"] = [[nrs(x) for x in h.get_bin_widths(i)] for i in range(nd)]
        mesh = h.get_bin_centers()
        out["mesh_centers_shape"] = [list(np.asarray(m).shape) for m in mesh]
        out["mesh_centers00"] = [nrs(np.asarray(m).ravel()[0]) for m in mesh]
        wm = h.get_bin_widths()
        out["mesh_widths_last"] = [nrs(np.asarray(m).ravel()[-1]) for m in wm]
    # additivity under merging: merge_bins(2) along every axis, on a copy
    out["merged"] = []
    for a in range(nd):
        if len(own[a]) < 2:
            continue
        try:
            m = h.merge_bins(2, axis=a) if nd > 1 else h.merge_bins(2)
        except Exception as e:
            out["merged"].append({"axis": a, "ret": "REFUSED", "why": f"{type(e).__name__}: {e}"[:120]})
            continue
        mb = [np.asarray(m.bins).reshape(-1, 2)] if nd == 1 else [np.asarray(b).reshape(-1, 2) for b in m.bins]
        out["merged"].append({"axis": a, "ret": "ok", "bins": [[nrs(l), nrs(r)] for l, r in mb[a]],
                              "sizes": [nrs(x) for x in np.asarray(m.bin_sizes).ravel()],
                              "shape": list(np.asarray(m.bin_sizes).shape),
                              "total_measure": nrs(m.total_width if nd == 1 else m.total_size)})
    return out


def build(case):
    """the source histogram of a case, through the public constructors"""
    from physt import special_histograms as sp
    from physt.binnings import FixedWidthBinning, NumpyBinning, StaticBinning
    from physt.histogram1d import Histogram1D
    from physt.histogram_nd import Histogram2D, HistogramND
    if case.get("facade"):
        return build_facade(case["facade"])
    klass = {"Histogram1D": Histogram1D, "Histogram2D": Histogram2D, "HistogramND": HistogramND}.get(case["class"]) or getattr(sp, case["class"])
    pairs = [np.array([[float(Fraction(l)), float(Fraction(r))] for l, r in ax]) for ax in case["axes"]]
    for a, spec in enumerate(case.get("adaptive") or []):
        if spec:     # a fixed-width binning (one that grows when a value outside is filled unless the spec says otherwise);
            #          its bins are those listed in `axes`
            pairs[a] = FixedWidthBinning(bin_width=float(Fraction(spec["w"])), bin_count=len(case["axes"][a]),
                                         min=float(Fraction(spec["min"])), adaptive=bool(spec.get("adaptive", True)))
    for a, car in enumerate(case.get("carriers") or []):
        # how the bins of an axis are handed over: (n, 2) pairs (the default), the n + 1 edges, or a binning object
        if car in (None, "pairs", "fixed") or not isinstance(pairs[a], np.ndarray):
            continue
        edges = np.concatenate([pairs[a][:1, 0], pairs[a][:, 1]])
        if car == "edges":
            pairs[a] = edges
        elif car == "edge_list":
            pairs[a] = edges.tolist()
        elif car == "static":
            pairs[a] = StaticBinning(pairs[a])
        elif car == "static_edges":
            pairs[a] = StaticBinning(edges)
        elif car == "numpy":
            pairs[a] = NumpyBinning(edges)
        else:
            raise ValueError(car)
    f = np.array([float(Fraction(v)) for v in case["freq"]]).astype(case["dtype"]).reshape(case["shape"])
    kw = {}
    if case.get("axis_names"):
        kw = {"axis_name": case["axis_names"][0]} if len(pairs) == 1 else {"axis_names": list(case["axis_names"])}
    if len(pairs) == 1:
        return klass(pairs[0], f, **kw)
    if case["class"] == "HistogramND":
        return klass(pairs, f, dimension=len(pairs), **kw)
    return klass(pairs, f, **kw)


def build_facade(fc):
    """a source made from data by the facades h1 / h2 (bins given as edges, a number, or by the name of a method)"""
    import physt
    cols = [np.array([float(Fraction(v)) for v in col]) for col in fc["data"]]
    b = fc["bins"]
    if b["kind"] == "edges":
        e = [[float(Fraction(v)) for v in ax] for ax in b["edges"]]
        args, kw = (e[0] if len(cols) == 1 else e,), {}
    elif b["kind"] == "int":
        args, kw = (int(b["n"]),), {}
    elif b["kind"] == "quantile":
        args, kw = ("quantile",), {"bin_count": int(b["n"])}
    elif b["kind"] == "fixed_width":
        args, kw = ("fixed_width",), {"bin_width": float(Fraction(b["w"]))}
    else:
        raise ValueError(b["kind"])
    return (physt.h1 if len(cols) == 1 else physt.h2)(*cols, *args, **kw)


def apply_op(h, op):
    """one derivation through the public API; returns the derived histogram (the same object for the in-place kinds).
    Positions are reduced modulo the current shape, so every op is meaningful whatever the earlier ops did."""
    from physt.special_histograms import TransformedHistogramMixin
    kind = op["op"]
    nd = h.ndim
    if kind == "T":
        if not hasattr(h, "T"):
            return None
        return h.T
    if kind == "copy":
        return h.copy()
    if kind in ("mul", "div", "imul", "idiv"):
        k = float(Fraction(op["k"]))
        if kind == "mul":
            return h * k if not op.get("int") else h * int(k)
        if kind == "div":
            return h / k
        if kind == "imul":
            h *= (int(k) if op.get("int") else k)
            return h
        h /= k
        return h
    if kind == "add":
        return h + h.copy()
    if kind == "iadd":
        h += h.copy()
        return h
    if kind == "normalize":
        return h.normalize(inplace=bool(op.get("inplace")), percent=bool(op.get("percent")))
    if kind == "merge":
        kw = {"inplace": bool(op.get("inplace"))}
        if nd > 1 and op.get("axis") is not None:
            kw["axis"] = op["axis"] % nd
        r = h.merge_bins(op["amount"], **kw)
        return h if op.get("inplace") else r
    if kind == "projection":
        if nd == 1:
            return None
        if "order" in op:
            # the axes in the ORDER asked for (positions modulo the current dimension, the first mention of an axis counts),
            # each referred to by its index (python or numpy integer) or by its name
            order = []
            for a in op["order"]:
                if a % nd not in order:
                    order.append(a % nd)
            refs = []
            for j, a in enumerate(order):
                by = op["by"][j % len(op["by"])]
                refs.append(str(h.axis_names[a]) if by == "name" else (np.int64(a) if by == "np" else int(a)))
            return h.projection(*refs)
        axes = sorted({a % nd for a in op["axes"]})
        if len(axes) == nd:
            axes = axes[:-1]
        return h.projection(*axes)
    if kind in ("slice", "select"):
        shape = list(h.shape)

        def sl(spec, n):
            if spec[0] == "a":
                return slice(None)
            if spec[0] == "s":
                start = spec[1] % n
                stop = start + 1 + spec[2] % (n - start)
                return slice(start if (start or spec[3]) else None, stop if (stop < n or spec[3]) else None)
            if spec[0] == "i":
                return int(spec[1] % n)
            if spec[0] == "m":          # a boolean mask (the pattern repeated over the bins; at least one bin is kept)
                m = [bool(spec[1][i % len(spec[1])]) for i in range(n)]
                if not any(m):
                    m[spec[2] % n] = True
                return np.array(m)
            return sorted({int(x % n) for x in spec[1]})
        if kind == "select":
            a = op["axis"] % nd
            ix = sl(op["index"], shape[a])
            if nd == 1 and isinstance(ix, int):
                return None                      # one bin of a 1-D histogram is a pair, not a histogram
            return h.select(a, ix)
        idx = [sl(sp_, shape[a]) for a, sp_ in zip(range(nd), op["index"])]
        if nd == 1:
            return None if isinstance(idx[0], int) else h[idx[0]]
        if all(isinstance(i, int) for i in idx) and len(idx) == nd:
            return None
        if op.get("short"):             # fewer indices than axes: H[1:3], H[1:3, :] ...
            idx = idx[:1 + (op["short"] - 1) % nd]
            return h[idx[0]] if len(idx) == 1 and op.get("bare") else h[tuple(idx)]
        return h[tuple(idx)]
    if kind == "fill":
        kw = {"transformed": True} if isinstance(h, TransformedHistogramMixin) else {}
        pts = [[float(Fraction(x)) for x in p] for p in op["values"]]      # resolved by resolve_points
        if op.get("n"):
            h.fill_n([p[0] for p in pts] if nd == 1 else pts, **kw)
        else:
            for p in pts:
                h.fill(p[0] if nd == 1 else p, **kw)
        return h
    raise ValueError(kind)


def resolve_points(h, values):
    """fill positions given relative to the current bins of every axis (below the first bin / above the last by j + 1/2 bin
    widths, or the centre of bin j) -> coordinates"""
    nd = h.ndim
    own = [np.asarray(h.bins).reshape(-1, 2)] if nd == 1 else [np.asarray(b).reshape(-1, 2) for b in h.bins]
    pts = []
    for p in values:
        pt = []
        for a in range(nd):
            where, j = p[a % len(p)]
            b = own[a]
            if len(b) == 0:
                v = 0.0
            elif where == "lo":
                v = b[0][0] - (j + 0.5) * (b[0][1] - b[0][0])
            elif where == "hi":
                v = b[-1][1] + (j + 0.5) * (b[-1][1] - b[-1][0])
            else:
                l, r = b[j % len(b)]
                v = (l + r) / 2
            pt.append(rs(float(v)))
        pts.append(pt)
    return pts


def is_full(klass, axes, kinds=None):
    """the bins cover the whole angular range(s) and the radius starts at 0, without gaps (from the current bins)"""
    if klass not in KIND or len(KIND[klass]) != len(axes):
        return False
    if not kinds or sorted(kinds) != sorted(KIND[klass]):
        kinds = KIND[klass]
    for kd, ax in zip(kinds, axes):
        if any(ax[i][1] != ax[i + 1][0] for i in range(len(ax) - 1)):
            return False
        if kd == "r" and ax[0][0] != 0.0:
            return False
        if kd == "phi" and (ax[0][0] != 0.0 or ax[-1][1] != 2 * math.pi):
            return False
        if kd == "theta" and (ax[0][0] != 0.0 or ax[-1][1] != math.pi):
            return False
    return True


class C16:
    ID = "C16"
    N_QUICK = 500
    N_THOROUGH = 10000
    N_SEARCH = 375
    RULE = ("a histogram of every class (1-D, 2-D, ND up to 4 axes, radial, azimuthal, polar, spherical, sphere surface, "
            "cylindrical, cylinder surface) with irregular (also gapped, for plain classes also tiny-gap) bins — full angular "
            "ranges in a share of the cases — and arbitrary contents of every dtype (int16 contents whose running sum "
            "exceeds the type); observed: bin_sizes, densities, total_size / total_width, edges / centres / widths (per axis and "
            "mesh forms), cumulative_frequencies. Every 4th case (stream:derived) evaluates the same clauses on a DERIVED "
            "histogram with a HISTORY of reads: a source of any class (square and non-square shapes, different irregular axes, "
            "a share with adaptive fixed-width axes), an arbitrary subset of the geometry observables read on it, then a chain of "
            "1-3 derivations drawn by family (T; copy, * / scalar, + , normalize, also in place; merge_bins on any / all axes, "
            "projection, slicing, select; adaptive growth by fill / fill_n), more reads in between; every clause is evaluated on "
            "the result (and on a share of the intermediate results) from its OWN current bins and class. "
            "Observed on every histogram as well: every numpy-style edge representation (edges, numpy_bins, get_bin_edges(axis), "
            "the edge / left / right meshes, numpy_like, the binnings' numpy_bins / first_edge / last_edge / bin_count), which "
            "for bins that touch must be  left edges + last right edge  of the histogram's OWN bins. "
            "Every 5th case belongs to one of two more streams. stream:proj_order: cylindrical / spherical / polar / surface "
            "(and plain) histograms, default / custom / rotated axis names, projected onto axis subsets in EVERY ORDER (by index, "
            "numpy integer, name; chains of 1-3 projections, other derivations in between): each axis of the result is "
            "identified by its NAME (its coordinate in the source) and must enter bin_sizes as that coordinate; a transformed "
            "class must hold the coordinates it is defined for; bin_sizes / total equal those of the same class built directly "
            "over the same bins; full-range totals. stream:warm_edges: sources over bins handed over as pairs / edges / lists / "
            "StaticBinning / NumpyBinning / FixedWidthBinning or made by h1 / h2 (edges, bin count, quantile, fixed_width), "
            "whose numpy-style edges were READ (nine kinds of read), then 1-3 selections (slices incl. H[1:3], H[:, 1:3], "
            "masks, index lists, select; merge_bins / copy / T / projection in between) with more reads in between; the model "
            "is asked for the edge representation of one axis of the result (or for its measures). stream:grid (both tiers, "
            "seed-independent): all axis orders x index / name x 7 classes, two-step projection chains; carrier x edge read x "
            "selection for 1-D, 2-D, polar and 3-D sources. "
            "non-trivial = more than one bin and non-zero contents (derived: at least one derivation succeeded); distinct = case hash")
    ASSUMPTIONS = ["libm cos is accurate to a few ulps: measures are compared with relative tolerance 1e-12"]
    EXTRA_TRUST = ["the theorems are over the real numbers (Mathlib); the float evaluation of the same formulas is compared with tolerance"]

    def gen_case(self, rng, k, tier):
        # every fifth case belongs to one of the two newer streams; the other four keep the older 3 : 1 mix
        if k % 5 == 4:
            return self.gen_proj(rng) if (k // 5) % 2 == 0 else self.gen_warm(rng)
        k = (k // 5) * 4 + k % 5
        if k % 4 == 1:
            return self.gen_derived(rng)
        klass = rng.choice(list(CLASSES))
        d = CLASSES[klass] or rng.choice([3, 4])
        full = rng.random() < 0.3
        tags = ["class:" + klass]
        if klass in KIND:
            axes = [axis_edges(rng, kd, full) for kd in KIND[klass]]
            pairs = [[[e[i], e[i + 1]] for i in range(len(e) - 1)] for e in axes]
        else:
            pairs = []
            for _ in range(d):
                p, t = gen1.rising_bins(rng)
                pairs.append(p[:3])
                if t["gapped"]:
                    tags.append("gapped")
        if klass == "Histogram1D" and rng.random() < 0.5:
            p, t = gen1.rising_bins(rng)
            pairs = [p]
            if t["gapped"]:
                tags.append("gapped")
        shape = [len(p) for p in pairs]
        size = int(np.prod(shape))
        dt = rng.choice(["int64", "float64", "int16", "int32", "float32"])
        if dt == "int16" and rng.random() < 0.5:
            vals = [rng.choice([20000, 15000, 5, 7]) for _ in range(size)]
        elif dt.startswith("int"):
            vals = [rng.randint(0, 9) for _ in range(size)]
        else:
            vals = [rng.randint(0, 40) / 4 for _ in range(size)]
        return {"kind": "measure", "class": klass, "axes": [[[rs(l), rs(r)] for l, r in p] for p in pairs], "shape": shape,
                "freq": [rs(v) for v in vals], "dtype": dt, "full": full, "tags": tags}

    # ------------------------------------------------------------------------------------------------ stream "derived"
    @staticmethod
    def gen_reads(rng, p_any):
        if rng.random() >= p_any:
            return []
        rd = [w for w in READS if rng.random() < 0.5] or [rng.choice(READS)]
        if rng.random() < 0.35:         # ... and the numpy-style edges (which a binning may keep once computed)
            rd += rng.sample(EDGE_READS, rng.randint(1, 2))
        rng.shuffle(rd)
        return [{"what": w, "axis": rng.randint(0, 3)} for w in rd]

    def gen_derived(self, rng):
        # by family: the 2-D class has the most derivations (the only one with T), the transformed family has seven classes
        fam = rng.choice(["plain1d", "plain2d", "plain2d", "plainnd", "transformed", "transformed"])
        klass = {"plain1d": "Histogram1D", "plain2d": "Histogram2D", "plainnd": "HistogramND"}.get(fam) \
            or rng.choice([c for c in CLASSES if c not in PLAIN])
        d = CLASSES[klass] or rng.choice([3, 4])
        plain = klass in PLAIN
        full = (not plain) and rng.random() < 0.3
        square = rng.random() < 0.6
        nmax = 4 if d <= 2 else 3
        n_sq = rng.randint(2, nmax)
        adaptive = [None] * d
        if rng.random() < 0.25:
            adaptive = [True if rng.random() < 0.6 else None for _ in range(d)]
            if not any(adaptive):
                adaptive[rng.randrange(d)] = True
            full = False
        tags = ["stream:derived", "class:" + klass]
        pairs = []
        for a in range(d):
            want = n_sq if square else rng.randint(1, nmax)
            kd = KIND[klass][a] if klass in KIND else "x"
            if adaptive[a]:
                w = rng.choice([0.25, 0.5, 1.0, 2.0])
                mn = 0.0 if kd != "x" and kd != "z" else rng.randint(-8, 8) * 0.25
                pairs.append([[mn + i * w, mn + (i + 1) * w] for i in range(want)])
                adaptive[a] = {"min": rs(mn), "w": rs(w)}
            elif not plain:
                e = axis_edges(rng, kd, full, n=want)
                pairs.append([[e[i], e[i + 1]] for i in range(len(e) - 1)])
            else:
                for _ in range(6):
                    p, t = gen1.rising_bins(rng)
                    if len(p) >= want:
                        break
                p = p[:want]
                if any(p[i][1] != p[i + 1][0] for i in range(len(p) - 1)):
                    tags.append("gapped")
                pairs.append(p)
        shape = [len(p) for p in pairs]
        size = int(np.prod(shape))
        if d > 1:
            tags.append("square" if len(set(shape)) == 1 and shape[0] > 1 else "nonsquare")
        if any(adaptive):
            tags.append("adaptive")
        dt = rng.choice(["int64", "float64", "int16", "int32", "float32"])
        vals = [rng.randint(0, 9) for _ in range(size)] if dt.startswith("int") else [rng.randint(0, 40) / 4 for _ in range(size)]
        vals[rng.randrange(size)] = rng.randint(1, 9)
        # ---- the history: reads on the source, then derivations (with reads in between)
        nd, is2d = d, klass == "Histogram2D"

        def slice_spec(allow_int, allow_list):
            r = rng.random()
            if allow_int and r < 0.25:
                return ["i", rng.randint(0, 5)]
            if allow_list and r < 0.5:
                return ["l", [rng.randint(0, 5) for _ in range(rng.randint(1, 3))]]
            return ["s", rng.randint(0, 5), rng.randint(0, 5), rng.random() < 0.5]

        ops = []
        for _ in range(rng.choice([1, 1, 2, 2, 3])):
            fams = ["same", "rebin"] + (["axes"] if is2d else []) + (["grow"] if any(adaptive) else [])
            kind = rng.choice(FAMILIES[rng.choice(fams)])
            if nd == 1 and kind == "projection":
                kind = "slice"
            op = {"op": kind}
            if kind in ("mul", "imul"):
                op["k"] = rng.choice(["2", "3", "3/2", "1/2", "5/4"])
                op["int"] = op["k"] in ("2", "3") and rng.random() < 0.5
            elif kind in ("div", "idiv"):
                op["k"] = rng.choice(["2", "4", "1/2", "3"])
            elif kind == "normalize":
                op["inplace"], op["percent"] = rng.random() < 0.4, rng.random() < 0.3
            elif kind == "merge":
                op["amount"], op["axis"], op["inplace"] = rng.randint(2, 3), rng.choice([None, 0, 1, 2, 3]), rng.random() < 0.4
            elif kind == "projection":
                op["axes"] = rng.sample(range(4), rng.randint(1, 2))
                kept = sorted({a % nd for a in op["axes"]})
                nd = len(kept) - (1 if len(kept) == nd else 0)
                is2d = plain and nd == 2
            elif kind == "slice":
                op["index"] = [slice_spec(nd > 1, nd == 1) for _ in range(4)]
                ints = [a for a in range(nd) if op["index"][a][0] == "i"]
                if len(ints) == nd:
                    op["index"][0] = ["s", rng.randint(0, 5), rng.randint(0, 5), False]
                    ints = ints[1:]
                nd -= len(ints)
                is2d = plain and nd == 2
            elif kind == "select":
                op["axis"], op["index"] = rng.randint(0, 3), slice_spec(nd > 1, False)
                if op["index"][0] == "i":
                    nd -= 1
                    is2d = plain and nd == 2
            elif kind == "fill":
                # positions relative to the CURRENT bins of each axis: below the first bin, above the last, inside bin j
                where = ["hi", "in"] if not plain else ["lo", "hi", "in"]
                op["values"] = [[[rng.choice(where if a == 0 else ["lo", "hi", "in"]), rng.randint(0, 2)] for a in range(4)]
                                for _ in range(rng.randint(1, 3))]
                op["n"] = rng.random() < 0.5
            op["reads"] = self.gen_reads(rng, 0.5)
            op["observe"] = rng.random() < 0.25
            ops.append(op)
        return {"kind": "derived", "class": klass, "axes": [[[rs(l), rs(r)] for l, r in p] for p in pairs], "shape": shape,
                "adaptive": adaptive, "freq": [rs(v) for v in vals], "dtype": dt, "full": full,
                "reads": self.gen_reads(rng, 0.85), "ops": ops, "tags": tags}

    # ------------------------------------------------------------------------------------- pieces of the newer streams
    @staticmethod
    def source_axes(rng, klass, d, full, nmin, nmax, distinct=True, gaps=0.0):
        """bins of every axis of a source of class `klass` (different bin counts on different axes where possible, so that
        a histogram whose axes were re-arranged cannot be mistaken for the original)"""
        counts = list(range(nmin, nmax + 1))
        rng.shuffle(counts)
        counts = (counts * d)[:d] if distinct else [rng.randint(nmin, nmax) for _ in range(d)]
        pairs = []
        for a in range(d):
            kd = KIND[klass][a] if klass in KIND else "x"
            if klass in KIND and klass != "Histogram1D":
                e = axis_edges(rng, kd, full, n=counts[a])
                pairs.append([[e[i], e[i + 1]] for i in range(len(e) - 1)])
            else:
                # dyadic, irregular, rising edges; a share of the axes with a gap
                e, x = [], rng.randint(-16, 16) * 0.25
                for _ in range(counts[a] + 1):
                    e.append(x)
                    x += rng.choice([0.25, 0.5, 0.75, 1.0, 1.5, 2.0, 4.0])
                p = [[e[i], e[i + 1]] for i in range(len(e) - 1)]
                if len(p) > 1 and rng.random() < gaps:
                    j = rng.randrange(len(p) - 1)
                    p[j][1] -= 0.125
                pairs.append(p)
        return pairs

    @staticmethod
    def contents(rng, shape):
        size = int(np.prod(shape))
        dt = rng.choice(["int64", "float64", "int16", "int32", "float32"])
        vals = [rng.randint(0, 9) for _ in range(size)] if dt.startswith("int") else [rng.randint(0, 40) / 4 for _ in range(size)]
        vals[rng.randrange(size)] = rng.randint(1, 9)
        return dt, vals

    @staticmethod
    def gen_edge_reads(rng, p_any, force=False):
        """reads that compute the numpy-style edges (mostly), mixed with the other geometry reads"""
        if not force and rng.random() >= p_any:
            return []
        rd = rng.sample(EDGE_READS, rng.randint(1, 3)) + [w for w in READS if rng.random() < 0.2]
        rng.shuffle(rd)
        return [{"what": w, "axis": rng.randint(0, 3)} for w in rd]

    # ------------------------------------------------------------------------------------------ stream "proj_order"
    def gen_proj(self, rng, klass=None):
        """projections of the transformed N-d classes (and of plain ones) onto every axis subset in every ORDER, axes given by
        index or by name, chains of projections, a derivation before / between them in a share of the cases"""
        klass = klass or rng.choice(["CylindricalHistogram"] * 4 + ["SphericalHistogram"] * 4 + ["PolarHistogram"] * 2
                                    + ["SphericalSurfaceHistogram", "CylindricalSurfaceHistogram", "HistogramND", "Histogram2D"])
        d = CLASSES[klass] or rng.choice([3, 4])
        plain = klass in PLAIN
        full = (not plain) and rng.random() < 0.4
        pairs = self.source_axes(rng, klass, d, full, 1 if rng.random() < 0.2 else 2, 4 if d <= 3 else 3)
        shape = [len(p) for p in pairs]
        dt, vals = self.contents(rng, shape)
        tags = ["stream:proj_order", "class:" + klass]
        names = None
        r = rng.random()
        if r < 0.2:
            names = rng.sample(["a", "b", "c", "u", "v", "w", "t"], d)          # names that say nothing
            tags.append("names:custom")
        elif r < 0.3 and not plain:
            base = ["rho" if klass.startswith("Cyl") and kd == "r" else kd for kd in KIND[klass]]
            names = base[1:] + base[:1]                                         # the usual names on the wrong axes
            tags.append("names:rotated")
        nd, ops, cur = d, [], klass

        def projection(nd, cur):
            # (only to steer the choice: which subsets a class maps to another transformed class)
            keys = [k_ for k_ in PROJ_MAP.get(cur, {}) if len(k_) < nd or len(k_) > 1]
            if keys and rng.random() < 0.65:
                order = list(rng.choice(sorted(keys) + [k_ for k_ in sorted(keys) if len(k_) > 1] * 2))
            else:
                size = max(1, min(rng.choice([1, 2, 2, 2, 3]), nd))
                order = sorted(rng.sample(range(nd), size))
            if len(order) > 1 and rng.random() < 0.7:
                while order == sorted(order):
                    rng.shuffle(order)
            by = rng.choice([["index"], ["name"], ["name"], ["index", "name"], ["name", "index"], ["np"]])
            new = PROJ_MAP.get(cur, {}).get(tuple(sorted(order)), "plain")
            return {"op": "projection", "order": order, "by": by}, len(order), new

        n_proj = rng.choice([1, 1, 2, 2, 3])
        for i in range(n_proj):
            if nd == 1:
                break
            if rng.random() < 0.3:
                kind = rng.choice(["copy", "mul", "merge", "slice", "normalize", "add"])
                op = {"op": kind}
                if kind == "mul":
                    op["k"], op["int"] = rng.choice(["2", "3/2", "1/2"]), False
                elif kind == "merge":
                    op["amount"], op["axis"], op["inplace"] = 2, rng.choice([None, 0, 1, 2]), rng.random() < 0.4
                elif kind == "slice":
                    op["index"] = [["s", rng.randint(0, 5), rng.randint(0, 5), rng.random() < 0.5] if rng.random() < 0.5 else ["a"]
                                   for _ in range(4)]
                elif kind == "normalize":
                    op["inplace"], op["percent"] = rng.random() < 0.4, False
                op["reads"], op["observe"] = self.gen_reads(rng, 0.3), False
                ops.append(op)
            op, nd, cur = projection(nd, cur)
            op["reads"] = self.gen_reads(rng, 0.4)
            op["observe"] = i < n_proj - 1 and nd > 1 and rng.random() < 0.8
            ops.append(op)
        case = {"kind": "derived", "class": klass, "axes": [[[rs(l), rs(r)] for l, r in p] for p in pairs], "shape": shape,
                "adaptive": [None] * d, "freq": [rs(v) for v in vals], "dtype": dt, "full": full, "direct": True,
                "reads": self.gen_reads(rng, 0.5), "ops": ops, "tags": tags}
        if names:
            case["axis_names"] = names
        return case

    # ------------------------------------------------------------------------------------------ stream "warm_edges"
    def gen_warm(self, rng):
        """selections (slices, masks, index lists, select; chains of them, with merge_bins / copies / projections in between)
        of histograms over every kind of binning whose numpy-style edges were READ before"""
        fam = rng.choice(["1d", "1d", "1d", "2d", "2d", "2d", "nd", "transformed", "facade", "facade"])
        tags = ["stream:warm_edges"]
        facade, adaptive, carriers = None, None, None
        if fam == "facade":
            two = rng.random() < 0.4
            klass, d = ("Histogram2D", 2) if two else ("Histogram1D", 1)
            n = rng.randint(8, 14)
            cols = [rng.sample([i / 8 for i in range(-40, 80)], n) for _ in range(d)]        # distinct values: no tied quantiles
            bk = rng.choice(["edges", "quantile", "int", "fixed_width"])
            if bk == "edges":
                ed = []
                for col in cols:
                    lo = min(col) - 0.5
                    e = [lo]
                    for _ in range(rng.randint(3, 6)):
                        e.append(e[-1] + rng.choice([0.5, 1.0, 1.5, 2.0, 3.0, 4.0]))
                    ed.append([rs(x) for x in e])
                bins = {"kind": "edges", "edges": ed}
            elif bk == "fixed_width":
                bins = {"kind": "fixed_width", "w": rng.choice(["1/2", "1", "2", "5/2"])}
            else:
                bins = {"kind": bk, "n": rng.randint(3, 6)}
            facade = {"data": [[rs(v) for v in col] for col in cols], "bins": bins}
            tags += ["class:" + klass, "carrier:facade_" + bk]
            pairs, shape, dt, vals, full = [], [], "int64", [], False
        else:
            klass = {"1d": "Histogram1D", "2d": "Histogram2D", "nd": "HistogramND"}.get(fam) or rng.choice(
                ["PolarHistogram", "CylindricalHistogram", "SphericalHistogram", "SphericalSurfaceHistogram",
                 "CylindricalSurfaceHistogram", "RadialHistogram", "AzimuthalHistogram"])
            d = CLASSES[klass] or 3
            plain = klass in PLAIN
            full = (not plain) and rng.random() < 0.3
            pairs = self.source_axes(rng, klass, d, full, 3, 6 if d == 1 else (5 if d == 2 else 4), distinct=d > 1,
                                     gaps=0.15 if plain else 0.0)
            adaptive, carriers = [None] * d, []
            for a in range(d):
                touching = all(pairs[a][i][1] == pairs[a][i + 1][0] for i in range(len(pairs[a]) - 1))
                kd = KIND[klass][a] if klass in KIND else "x"
                car = rng.choice(["pairs", "edges", "edge_list", "static", "static_edges", "numpy", "fixed"] if touching
                                 else ["pairs", "static"])
                if car == "fixed":
                    w = rng.choice([0.25, 0.5, 1.0, 2.0])
                    mn = 0.0 if kd not in ("x", "z") else rng.randint(-8, 8) * 0.25
                    if kd in ("phi", "theta") or (full and kd == "r"):
                        w = 0.5
                    pairs[a] = [[mn + i * w, mn + (i + 1) * w] for i in range(len(pairs[a]))]
                    adaptive[a] = {"min": rs(mn), "w": rs(w), "adaptive": rng.random() < 0.3}
                    full = False
                carriers.append(car)
                tags.append("carrier:" + car)
            shape = [len(p) for p in pairs]
            dt, vals = self.contents(rng, shape)
            tags.append("class:" + klass)
            if any(any(p[i][1] != p[i + 1][0] for i in range(len(p) - 1)) for p in pairs):
                tags.append("gapped")
        nd = d
        ops = []

        def span():
            return ["s", rng.randint(0, 6), rng.randint(0, 6), rng.random() < 0.5]

        def selection(nd):
            """one selection of a histogram of `nd` axes -> (op, dimension of the result)"""
            r = rng.random()
            if nd == 1:
                if r < 0.5:
                    return {"op": "slice", "index": [span()] * 1 + [["a"]] * 3, "sel": "slice"}, 1
                if r < 0.65:
                    return {"op": "select", "axis": 0, "index": span(), "sel": "select"}, 1
                if r < 0.85:
                    if rng.random() < 0.6:          # a run of kept bins (the result's bins touch when the source's do)
                        a_, b_ = sorted(rng.sample(range(7), 2))
                        bits = [a_ <= i < b_ for i in range(6)]
                    else:
                        bits = [rng.random() < 0.6 for _ in range(6)]
                    return {"op": "slice", "index": [["m", bits, rng.randint(0, 5)]] + [["a"]] * 3, "sel": "mask"}, 1
                if rng.random() < 0.6:
                    a_ = rng.randint(0, 4)
                    lst = list(range(a_, a_ + rng.randint(1, 3)))
                else:
                    lst = [rng.randint(0, 5) for _ in range(rng.randint(1, 3))]
                return {"op": "slice", "index": [["l", lst]] + [["a"]] * 3, "sel": "list"}, 1
            t = rng.randrange(nd)
            if r < 0.3:
                return {"op": "select", "axis": t, "index": span(), "sel": "select"}, nd
            if r < 0.65:                            # one axis sliced, the others whole: H[:, 1:3]
                idx = [["a"]] * 4
                idx[t] = span()
                op = {"op": "slice", "index": idx, "sel": "slice_one_axis"}
                if t == 0 and rng.random() < 0.5:
                    op["short"], op["bare"] = 1, rng.random() < 0.5      # H[1:3] / H[1:3,]
                return op, nd
            idx, ints = [], 0
            for a in range(4):
                q = rng.random()
                if q < 0.2 and a < nd and ints < nd - 1:
                    idx.append(["i", rng.randint(0, 5)])
                    ints += 1
                else:
                    idx.append(span() if q < 0.8 else ["a"])
            return {"op": "slice", "index": idx, "sel": "slice_many"}, nd - ints

        n_ops = rng.choice([1, 1, 2, 2, 3])
        for i in range(n_ops):
            q = rng.random()
            if q < 0.7 or i == n_ops - 1:
                op, nd = selection(nd)
            elif q < 0.85:
                op = {"op": "merge", "amount": 2, "axis": rng.choice([None, 0, 1, 2]), "inplace": rng.random() < 0.4}
            elif q < 0.9:
                op = {"op": "copy"}
            elif q < 0.95 and nd == 2 and klass == "Histogram2D":
                op = {"op": "T"}
            elif nd > 1:
                order = rng.sample(range(nd), rng.randint(1, nd - 1))
                op, nd = {"op": "projection", "order": order, "by": [rng.choice(["index", "name"])]}, len(order)
            else:
                op = {"op": "mul", "k": "2", "int": False}
            # the reads between the operations are what makes the NEXT selection start from a histogram already looked at
            op["reads"] = self.gen_edge_reads(rng, 0.6)
            op["observe"] = rng.random() < 0.2
            ops.append(op)
        reads = self.gen_edge_reads(rng, 0.9)
        tags.append("source_edges:read" if any(r_["what"] in EDGE_READS for r_ in reads) else "source_edges:cold")
        case = {"kind": "derived", "class": klass, "axes": [[[rs(l), rs(r)] for l, r in p] for p in pairs], "shape": shape,
                "adaptive": adaptive or [None] * d, "carriers": carriers, "freq": [rs(v) for v in vals], "dtype": dt, "full": full,
                "reads": reads, "ops": ops, "tags": tags, "model": rng.choice(["edges", "edges", "measure"]),
                "model_axis": rng.randint(0, 3)}
        if facade:
            case["facade"] = facade
        return case

    def run_derived(self, case):
        h = build(case)
        read_errors, steps = [], []
        # the coordinate of every axis of the source, by axis NAME: a derived histogram's axes are identified by their names
        # (the position in the class says nothing once a derivation may list the axes in another order)
        src_kinds = KIND.get(type(h).__name__) or ["x"] * h.ndim
        names = [str(n) for n in h.axis_names]
        kindmap = dict(zip(names, src_kinds)) if len(set(names)) == len(names) == len(src_kinds) else {}
        direct = bool(case.get("direct"))

        def gapped(hh, rd):
            bb = [np.asarray(hh.bins).reshape(-1, 2)] if hh.ndim == 1 else [np.asarray(b).reshape(-1, 2) for b in hh.bins]
            if hh.ndim > 1 and rd["what"] in ("binning_edges", "binning_repr", "consecutive", "first_last"):
                bb = [bb[rd.get("axis", 0) % hh.ndim]]
            return any(len(b) == 0 or any(b[i][1] != b[i + 1][0] for i in range(len(b) - 1)) for b in bb)

        def reads(hh, rds, where):
            for rd in rds:
                try:
                    do_read(hh, rd)
                except Exception as e:
                    if rd["what"] in EDGE_READS and gapped(hh, rd):
                        continue        # the numpy-style edges of bins with a gap (or of no bins) need not exist
                    read_errors.append(f"{where}: reading {rd['what']} of a {type(hh).__name__}: {type(e).__name__}: {e}"[:200])

        def obs(hh):
            kinds = [kindmap.get(str(n)) for n in hh.axis_names]
            kinds = None if (not kindmap or None in kinds) else kinds
            try:
                return observe(hh, kinds=kinds, direct=direct)
            except Exception as e:
                return {"class": type(hh).__name__, "error": f"{type(e).__name__}: {e}"[:200]}

        reads(h, case["reads"], "source")
        cur = h
        for i, op in enumerate(case["ops"]):
            if op["op"] == "fill":
                op = dict(op, values=resolve_points(cur, op["values"]))
            try:
                r = apply_op(cur, op)
            except Exception as e:
                steps.append({"op": op["op"], "ret": "REFUSED", "why": f"{type(e).__name__}: {e}"[:120]})
                continue
            if r is None:
                steps.append({"op": op["op"], "ret": "n/a"})
                continue
            cur = r
            st = {"op": op["op"], "ret": "ok", "class": type(cur).__name__}
            if op["op"] == "fill":
                st["points"] = op["values"]
            reads(cur, op.get("reads", []), f"after op {i} ({op['op']})")
            if op.get("observe"):
                st["obs"] = obs(cur)
            steps.append(st)
        out = obs(cur)
        out["steps"] = steps
        out["read_errors"] = read_errors
        return {"outs": out, "log": []}

    def run_impl(self, case):
        if case.get("kind") == "derived":
            return self.run_derived(case)
        h = build(case)
        out = observe(h)
        return {"outs": out, "log": []}

    @staticmethod
    def model_perm(o):
        """positions of the result's axes in the canonical order of its class (identity unless the axes are known to stand
        in another order); None when the class does not hold the coordinates it is defined for"""
        cls, kinds = o["class"], o.get("kinds")
        if canonical(cls, kinds):
            return list(range(len(o["bins"])))
        if sorted(kinds) != sorted(KIND[cls]):
            return None
        return [list(kinds).index(kd) for kd in KIND[cls]]

    def model_case(self, case, io):
        if case.get("kind") == "derived":
            # the model has no derivations: it is asked for the measures of the RESULT's own bins and class
            o = io["outs"]
            if "error" in o or o.get("empty"):
                return None
            if case.get("model") == "edges":
                # ... or for the numpy-style representation of the bins of one axis of the result
                return {"kind": "binning", "what": "repr", "bins": o["bins"][case.get("model_axis", 0) % len(o["bins"])]}
            perm = self.model_perm(o)
            if perm is None:
                return None
            return {"kind": "measure", "class": "HistogramND" if o["class"] == "Histogram2D" else o["class"],
                    "axes": [o["bins"][p_] for p_ in perm]}
        c = {"kind": "measure", "class": "HistogramND" if case["class"] == "Histogram2D" else case["class"], "axes": case["axes"]}
        return c

    def diff(self, case, model_ok, io):
        if case.get("kind") == "derived" and case.get("model") == "edges":
            o = io["outs"]
            a = case.get("model_axis", 0) % len(o["bins"])
            rep = o["edge_repr"]["axes"][a]
            d = []
            if model_ok["count"] != rep["count"]:
                d.append(f"axis {a}: bin count: model {model_ok['count']} impl {rep['count']}")
            if model_ok["consecutive"]:
                if Fraction(model_ok["first"]) != Fraction(rep["first"]) or Fraction(model_ok["last"]) != Fraction(rep["last"]):
                    d.append(f"axis {a}: first / last edge: model {model_ok['first']}, {model_ok['last']} impl {rep['first']}, {rep['last']}")
                got = rep["binning.numpy_bins"]
                if isinstance(got, str) or [Fraction(x) for x in got] != [Fraction(x) for x in model_ok["edges"]]:
                    d.append(f"axis {a}: numpy-style edges: model {model_ok['edges'][:8]} impl {got if isinstance(got, str) else got[:8]}")
            return d
        got = io["outs"]["bin_sizes"]
        if case.get("kind") == "derived":
            perm = self.model_perm(io["outs"])
            if perm != sorted(perm):        # the model lists the cells in the canonical axis order of the class
                got = [nrs(x) for x in np.transpose(np.array([fl(x) for x in got]).reshape(io["outs"]["shape_sizes"]), perm).ravel()]
        d = []
        if len(model_ok) != len(got):
            return [f"bin_sizes length: model {len(model_ok)} impl {len(got)}"]
        for i, (a, b) in enumerate(zip(model_ok, got)):
            x, y = Fraction(a), Fraction(b)
            if abs(x - y) > Fraction(1, 10**11) * max(abs(x), abs(y), Fraction(1, 10**6)):
                d.append(f"bin_sizes[{i}]: model={float(x)} impl={float(y)}")
        return d[:6]

    def oracle(self, case, io):
        o = io["outs"]
        if case.get("kind") == "derived":
            fails = [f"read_failed: {e}" for e in o["read_errors"]]
            todo = [(f"after op {i} ({st['op']})", st["obs"]) for i, st in enumerate(o["steps"]) if "obs" in st] + [("result", o)]
            for label, ob in todo:
                if "error" in ob:
                    fails.append(f"unreadable: [{label}; {ob['class']}] {ob['error']}")
                    continue
                if ob.get("empty"):
                    continue
                axes = [[(fl(l), fl(r)) for l, r in ax] for ax in ob["bins"]]
                shape = [len(ax) for ax in axes]
                if ob["freq_shape"] != shape:
                    fails.append(f"size_shape: [{label}; {ob['class']}] frequencies have shape {ob['freq_shape']}, the bins {shape}")
                    continue
                kinds = ob.get("kinds")
                for f in self.clauses(ob["class"], axes, shape, ob, is_full(ob["class"], axes, kinds), approx=True, kinds=kinds):
                    sig, _, rest = f.partition(":")
                    fails.append(f"{sig}: [{label}; {ob['class']} {'x'.join(map(str, shape))}]{rest}")
            return fails[:6]
        axes = [[(float(Fraction(l)), float(Fraction(r))) for l, r in ax] for ax in case["axes"]]
        return self.clauses(case["class"], axes, case["shape"], o, case["full"])[:6]

    def clauses(self, cls, axes, shape, o, full, approx=False, kinds=None):
        """every clause of the property on one observed histogram of class `cls` whose bins are `axes`.
        `kinds`: the coordinate of each axis where it is known from the histogram's origin (axis names); a transformed class
        must hold exactly the coordinates it is defined for, and each axis enters the measure as ITS coordinate"""
        fails = []
        import itertools
        cells = list(itertools.product(*axes))
        klass = "HistogramND" if cls == "Histogram2D" else cls
        r_axis = 0
        if canonical(klass, kinds):
            sizes = [measure_py(klass, c) for c in cells]
        elif sorted(kinds) != sorted(KIND[klass]):
            fails.append(f"class_coordinates: a {cls} whose axes {o.get('axis_names')} hold the coordinates {kinds}: "
                         f"the class measures {KIND[klass]}")
            sizes = [measure_py(klass, c) for c in cells]
        else:
            sizes = [measure_by_kinds(klass, list(kinds), c) for c in cells]
            r_axis = list(kinds).index("r") if "r" in kinds else 0
        bs = [fl(x) for x in o["bin_sizes"]]
        tol = lambda a, b: abs(a - b) <= 1e-11 * max(abs(a), abs(b), 1e-6)
        if o["shape_sizes"] != shape:
            fails.append(f"size_shape: bin_sizes has shape {o['shape_sizes']}, the histogram {shape}")
        elif not all(tol(a, b) for a, b in zip(bs, sizes)):
            k = next(i for i, (a, b) in enumerate(zip(bs, sizes)) if not tol(a, b))
            fails.append(f"bin_size: {cls} cell {cells[k]} has bin_size {bs[k]}, its measure is {sizes[k]}")
        f = [fl(x) for x in o["freq"]]
        for i, (dn, s, fr) in enumerate(zip(o["densities"], bs, f)):
            if s != 0 and dn is not None and dn not in ("inf", "-inf") and math.isfinite(fr):
                if not tol(fl(dn) * s, fr) and abs(fl(dn) * s - fr) > 1e-9:
                    fails.append(f"density: densities*bin_sizes = {fl(dn) * s} but frequency is {fr} (cell {i})")
                    break
        key = "total_width" if len(axes) == 1 else "total_size"
        # total_width is the summed *width* of a 1-D axis (also for the radial class); total_size the summed measure
        covered = sum(r - l for l, r in axes[0]) if len(axes) == 1 else sum(sizes)
        if not tol(fl(o[key]), covered) and abs(fl(o[key]) - covered) > 1e-9:
            fails.append(f"total_measure: {key} = {fl(o[key])}, the covered region measures {covered}")
        total_measure = sum(bs)
        if full and cls in KIND:
            R = axes[r_axis][-1][1]
            exp = {"PolarHistogram": math.pi * R * R, "RadialHistogram": math.pi * R * R,
                   "SphericalSurfaceHistogram": 4 * math.pi, "SphericalHistogram": 4 / 3 * math.pi * R ** 3}.get(cls)
            if exp is not None and axes[r_axis][0][0] == 0.0 and not tol(total_measure, exp) and abs(total_measure - exp) > 1e-9:
                fails.append(f"full_range_total: the bin measures sum to {total_measure}, expected {exp}")
        # the same class built directly over the same bins reports the same measures
        dr = o.get("direct")
        if dr and "error" not in dr and o["shape_sizes"] == shape:
            ds = [fl(x) for x in dr["sizes"]]
            if len(ds) != len(bs) or not all(tol(a, b) for a, b in zip(bs, ds)):
                k = next((i for i, (a, b) in enumerate(zip(bs, ds)) if not tol(a, b)), 0)
                fails.append(f"direct_sizes: {cls} cell {cells[k] if k < len(cells) else k}: bin_size {bs[k] if k < len(bs) else None}, "
                             f"a {cls} built directly over the same bins reports {ds[k] if k < len(ds) else None}")
            dkey = "total_width" if len(axes) == 1 else "total_size"
            if not tol(fl(o[dkey]), fl(dr["total"])) and abs(fl(o[dkey]) - fl(dr["total"])) > 1e-9:
                fails.append(f"direct_total: {dkey} = {fl(o[dkey])}, a {cls} built directly over the same bins reports {fl(dr['total'])}")
        # additivity: merging runs of two adjacent bins along an axis adds their measures (and is refused across a gap)
        for mg in o.get("merged", []):
            a = mg["axis"]
            ax = axes[a]
            runs = [ax[i:i + 2] for i in range(0, len(ax), 2)]
            gap = any(len(r) == 2 and r[0][1] != r[1][0] for r in runs)
            if mg["ret"] != "ok":
                if not gap:
                    fails.append(f"merge_refused: merging adjacent bins of axis {a} was refused: {mg['why']}")
                continue
            if gap:
                fails.append(f"merged_across_gap: axis {a}: a run of two bins that do not touch was merged into one bin "
                             f"(its measure is no longer the sum of the parts)")
                continue
            want_bins = [(r[0][0], r[-1][1]) for r in runs]
            got_bins = [(fl(l), fl(r)) for l, r in mg["bins"]]
            if got_bins != want_bins:
                fails.append(f"merged_edges: axis {a}: merged bins {got_bins}, expected {want_bins}")
                continue
            # measure of every merged cell = sum of the measures of its parts
            shp = list(shape); arr = np.array(bs).reshape(shp)
            idx = [slice(None)] * len(shp)
            parts = []
            for i in range(0, shp[a], 2):
                idx[a] = slice(i, i + 2)
                parts.append(arr[tuple(idx)].sum(axis=a))
            want = np.stack(parts, axis=a).ravel()
            got = np.array([fl(x) for x in mg["sizes"]])
            if got.shape != want.shape or not all(tol(x, y) or abs(x - y) <= 1e-9 for x, y in zip(got, want)):
                fails.append(f"merge_additive: axis {a}: measures of the merged bins {got.tolist()[:6]} are not the sums of their parts {want.tolist()[:6]}")
            if len(axes) > 1 or cls != "RadialHistogram":
                tm = fl(mg["total_measure"])
                tm0 = fl(o[key])
                if not tol(tm, tm0) and abs(tm - tm0) > 1e-9:
                    fails.append(f"merge_total_measure: axis {a}: {key} changed from {tm0} to {tm} by merging")
        # edges / centres / widths
        L = [o["left"]] if len(axes) == 1 else o["left"]
        Rr = [o["right"]] if len(axes) == 1 else o["right"]
        C = [o["centers"]] if len(axes) == 1 else o["centers"]
        W = [o["widths"]] if len(axes) == 1 else o["widths"]
        for a, ax in enumerate(axes):
            if [fl(x) for x in L[a]] != [l for l, _ in ax] or [fl(x) for x in Rr[a]] != [r for _, r in ax]:
                fails.append(f"edges: left/right edges of axis {a} differ from bins")
            if len(C[a]) != len(ax) or len(W[a]) != len(ax):
                fails.append(f"centre_width: axis {a} has {len(ax)} bins, {len(C[a])} centres and {len(W[a])} widths")
                continue
            for (l, r), c, w in zip(ax, C[a], W[a]):
                if fl(c) != (l + r) / 2 or fl(w) != r - l:
                    fails.append(f"centre_width: axis {a} bin [{l},{r}] centre {fl(c)} width {fl(w)}")
                    break
        fails += self.edge_clauses(axes, shape, o.get("edge_repr"))
        if len(axes) == 1:
            if all(math.isfinite(x) for x in f):
                run, cum, mag = Fraction(0), [], Fraction(0)
                for x in o["freq"]:
                    run += Fraction(x); cum.append(run); mag += abs(Fraction(x))
                if not approx or "int" in o.get("dtype", ""):
                    got = [None if x is None else Fraction(x) for x in o["cumulative"]]
                    if got != cum:
                        fails.append(f"cumulative: cumulative_frequencies = {o['cumulative']}, running sums are {[str(c) for c in cum]}")
                    elif cum and cum[-1] != Fraction(o["total"]):
                        fails.append("cumulative_total: the running sum does not end at total")
                else:
                    # contents that went through float division: the running sum is compared up to the rounding of n additions
                    eps = 2.0 ** -23 if "float32" in o.get("dtype", "") else 2.0 ** -52
                    bound = 8 * len(cum) * eps * float(mag) + 1e-300
                    got = [fl(x) for x in o["cumulative"]]
                    if len(got) != len(cum) or any(not abs(g - float(c)) <= bound for g, c in zip(got, cum)):
                        fails.append(f"cumulative: cumulative_frequencies = {got}, running sums are {[float(c) for c in cum]}")
                    elif cum and not abs(float(cum[-1]) - fl(o["total"])) <= bound:
                        fails.append("cumulative_total: the running sum does not end at total")
            if fl(o["min_edge"]) != axes[0][0][0] or fl(o["max_edge"]) != axes[0][-1][1]:
                fails.append("outer_edges: min_edge / max_edge differ from bins")
        else:
            if any(s != shape for s in o["mesh_centers_shape"]):
                fails.append(f"mesh_shape: mesh of centres has shapes {o['mesh_centers_shape']}, expected {shape}")
            if [fl(x) for x in o["mesh_centers00"]] != [(ax[0][0] + ax[0][1]) / 2 for ax in axes]:
                fails.append("mesh_centres: first mesh entry is not the first bin centre of every axis")
            if [fl(x) for x in o["mesh_widths_last"]] != [ax[-1][1] - ax[-1][0] for ax in axes]:
                fails.append("mesh_widths: last mesh entry is not the last bin width of every axis")
        return fails

    @staticmethod
    def edge_clauses(axes, shape, er):
        """the numpy-style edge representations describe the histogram's OWN bins: for an axis whose bins touch exactly,
        every representation is the n + 1 numbers  left edges + last right edge  (so centres / widths derived from it are
        those of the bins); the mesh forms have one more point than bins along every axis.  Nothing is demanded for an axis
        with a gap (the representation need not exist there; what it holds inside physt's closeness tolerance is not pinned)."""
        if not er:
            return []
        fails = []
        touching = [all(ax[i][1] == ax[i + 1][0] for i in range(len(ax) - 1)) for ax in axes]
        for a, (ax, rep) in enumerate(zip(axes, er["axes"])):
            if rep["count"] != len(ax):
                fails.append(f"edge_repr: axis {a}: its binning counts {rep['count']} bins, the histogram has {len(ax)}")
            if not touching[a]:
                continue
            want = [ax[0][0]] + [r for _, r in ax]
            for key in ("edges", "numpy_bins", "get_bin_edges", "numpy_like", "binning.numpy_bins"):
                if key not in rep or (key != "binning.numpy_bins" and not all(touching)):
                    continue        # an N-d histogram makes the edges of all its axes at once: a gap on another axis refuses them
                got = rep[key]
                if isinstance(got, str):
                    fails.append(f"edge_repr: axis {a}: {key} is not available for {len(ax)} bins that touch: {got}")
                    break
                got = [fl(x) for x in got]
                if got != want:
                    fails.append(f"edge_repr: axis {a}: {key} = {got[:8]} ({len(got)} edges) but the {len(ax)} bins are "
                                 f"{[list(b) for b in ax][:6]} (left edges + last right edge = {want[:8]})")
                    break
            if fl(rep["first"]) != want[0] or fl(rep["last"]) != want[-1]:
                fails.append(f"edge_repr: axis {a}: first_edge / last_edge of the binning are {fl(rep['first'])}, {fl(rep['last'])}, "
                             f"the bins span {want[0]} .. {want[-1]}")
        if all(touching):
            if er["numpy_like_freq_shape"] != shape:
                fails.append(f"edge_repr: numpy_like holds contents of shape {er['numpy_like_freq_shape']}, the histogram is {shape}")
            for key, inc, pick in (("edge_mesh", 1, None), ("left_mesh", 0, 0), ("right_mesh", 0, 1)):
                mesh = er.get(key)
                if mesh is None:
                    continue
                if isinstance(mesh, str):
                    fails.append(f"edge_repr: {key} is not available although all bins touch: {mesh}")
                    continue
                exp_shape = [n + inc for n in shape]
                if any(sh != exp_shape for sh in mesh["shapes"]) or len(mesh["shapes"]) != len(shape):
                    fails.append(f"edge_repr: {key} has shapes {mesh['shapes']}, a histogram of shape {shape} has {exp_shape}")
                    continue
                first = [ax[0][0] if pick in (None, 0) else ax[0][1] for ax in axes]
                last = [ax[-1][1] if pick in (None, 1) else ax[-1][0] for ax in axes]
                if [fl(x) for x in mesh["first"]] != first or [fl(x) for x in mesh["last"]] != last:
                    fails.append(f"edge_repr: {key} runs from {[fl(x) for x in mesh['first']]} to {[fl(x) for x in mesh['last']]}, "
                                 f"the bins from {first} to {last}")
        return fails[:3]

    def nontrivial(self, case, io):
        if case.get("kind") == "derived":
            o = io["outs"]
            return any(st["ret"] == "ok" for st in o["steps"]) and len(o.get("freq", [])) > 1 and any(v != "0" for v in o["freq"])
        return len(case["freq"]) > 1 and any(v != "0" for v in case["freq"])

    def tags(self, case, io):
        t = list(case["tags"]) + ["dtype:" + case["dtype"], "full" if case["full"] else "partial"]
        if case.get("kind") == "derived":
            o = io["outs"]
            t.append("reads:warm" if case["reads"] else "reads:none")
            t += ["op:" + st["op"] + ("" if st["ret"] == "ok" else ":" + st["ret"]) for st in o["steps"]]
            t.append("result:" + o["class"])
            for op, st in zip(case["ops"], o["steps"]):
                if st["ret"] != "ok":
                    continue
                if "sel" in op:
                    t.append("sel:" + op["sel"])
                if "order" in op:
                    asc = list(op["order"]) == sorted(op["order"])
                    t.append("order:ascending" if asc else "order:other")
                    t.append("projected_to:" + st["class"] + ("" if asc else ":order_other"))
                    t += ["axes_by:" + b for b in set(op["by"])]
            if "model" in case:
                t.append("model:" + case["model"])
            if case.get("direct") and "direct" in o:
                t.append("direct:" + ("n/a" if "error" in o["direct"] else "compared"))
        return t

    def matches_known(self, finding, case):
        return True

    # ------------------------------------------------------------------------------------------------- fixed grids
    GRID_AXES = {   # full angular ranges, different bin counts on different axes, dyadic radii / heights
        "r": [0.0, 0.5, 1.5], "phi": [0.0, 1.0, 2.5, 4.0, 2 * math.pi], "theta": [0.0, 0.75, 2.0, math.pi],
        "z": [-1.0, 0.0, 2.0, 2.5, 4.0, 5.0], "x": [0.0, 1.0, 3.0, 7.0, 15.0, 31.0, 32.0],
    }

    def grid_case(self, klass, ops, reads=(), carriers=None, tags=(), n_x=None, **extra):
        kinds = KIND.get(klass) or ["x"] * (CLASSES[klass] or 3)
        pairs = []
        for a, kd in enumerate(kinds):
            e = self.GRID_AXES[kd]
            if kd == "x":
                e = [v + a for v in e[:(n_x or [6, 4, 3])[a] + 1 if not isinstance(n_x, int) else n_x + 1]]
            pairs.append([[e[i], e[i + 1]] for i in range(len(e) - 1)])
        shape = [len(p) for p in pairs]
        size = int(np.prod(shape))
        adaptive = [None] * len(pairs)
        for a, car in enumerate(carriers or []):
            if car == "fixed":          # regular bins of width 1/2 with as many bins as the irregular axis had
                pairs[a] = [[a + i * 0.5, a + (i + 1) * 0.5] for i in range(shape[a])]
                adaptive[a] = {"min": rs(float(a)), "w": "1/2", "adaptive": False}
        case = {"kind": "derived", "class": klass, "axes": [[[rs(l), rs(r)] for l, r in p] for p in pairs], "shape": shape,
                "adaptive": adaptive, "freq": [rs(1 + (7 * i) % 5) for i in range(size)], "dtype": "int64",
                "full": klass not in PLAIN, "reads": [dict(r) for r in reads], "ops": ops,
                "tags": ["stream:grid", "class:" + klass] + list(tags)}
        if carriers:
            case["carriers"] = list(carriers)
        case.update(extra)
        return case

    def exhaustive_cases(self, tier):
        """(both tiers, independent of the seed)  (1) every transformed N-d class and the plain ones projected onto every axis
        subset in every order, by index and by name, and every two-axis projection of the 3-d classes projected once more;
        (2) every way of handing bins over x every read of the numpy-style edges x every selection, 1-D and 2-D, and
        two-step chains with the edges read in between"""
        import itertools
        for klass in ("CylindricalHistogram", "SphericalHistogram", "PolarHistogram", "SphericalSurfaceHistogram",
                      "CylindricalSurfaceHistogram", "HistogramND", "Histogram2D"):
            nd = CLASSES[klass] or 3
            for m in range(1, nd + 1):
                for order in itertools.permutations(range(nd), m):
                    for by in ("index", "name"):
                        yield self.grid_case(klass, [{"op": "projection", "order": list(order), "by": [by], "reads": [], "observe": False}],
                                             tags=["grid:projection_orders"], direct=True)
                    if nd == 3 and m == 2:
                        for second in ([0], [1], [1, 0]):
                            yield self.grid_case(klass, [
                                {"op": "projection", "order": list(order), "by": ["name"], "reads": [], "observe": True},
                                {"op": "projection", "order": second, "by": ["index"], "reads": [], "observe": False}],
                                tags=["grid:projection_chains"], direct=True)
        span = ["s", 1, 2, True]                                    # [1:4]
        sel1 = {"slice": {"op": "slice", "index": [span]}, "mask": {"op": "slice", "index": [["m", [False, True, True, True, False, False], 0]]},
                "list": {"op": "slice", "index": [["l", [1, 2, 3]]]}, "select": {"op": "select", "axis": 0, "index": span}}
        for car in ("pairs", "edges", "edge_list", "static", "static_edges", "numpy", "fixed"):
            for rd in EDGE_READS:
                for name, op in sel1.items():
                    yield self.grid_case("Histogram1D", [dict(op, reads=[], observe=False, sel=name)], reads=[{"what": rd, "axis": 0}],
                                         carriers=[car], tags=["grid:warm_selection", "carrier:" + car], model="edges", model_axis=0)
            for first, second in (("slice", "slice"), ("merge", "slice"), ("slice", "mask"), ("mask", "slice")):
                ops = [dict(sel1[x], sel=x) if x != "merge" else {"op": "merge", "amount": 2, "axis": None, "inplace": False}
                       for x in (first, second)]
                ops[1] = dict(ops[1], index=[["s", 0, 1, True]]) if second == "slice" else ops[1]
                for o_ in ops:
                    o_.update(reads=[{"what": "edges", "axis": 0}], observe=False)
                ops[-1]["reads"] = []
                yield self.grid_case("Histogram1D", ops, reads=[{"what": "numpy_bins", "axis": 0}], carriers=[car],
                                     tags=["grid:warm_chain", "carrier:" + car], model="edges", model_axis=0)
        s2 = ["s", 1, 1, True]                                      # [1:3]
        sel2 = {"H[1:3]": {"op": "slice", "index": [s2, ["a"]], "short": 1, "bare": True},
                "H[1:3,:]": {"op": "slice", "index": [s2, ["a"]]}, "H[:,1:3]": {"op": "slice", "index": [["a"], s2]},
                "H[1:3,1:]": {"op": "slice", "index": [s2, ["s", 1, 5, False]]},
                "select(0)": {"op": "select", "axis": 0, "index": s2}, "select(1)": {"op": "select", "axis": 1, "index": s2}}
        for klass, cars in (("Histogram2D", ("pairs", "static", "numpy", "fixed")), ("PolarHistogram", ("static",)),
                            ("HistogramND", ("pairs",))):
            nd = CLASSES[klass] or 3
            for car in cars:
                for rd in EDGE_READS:
                    for name, op in sel2.items():
                        ax = 1 if name in ("H[:,1:3]", "select(1)") else 0
                        op = dict(op, index=op["index"] + [["a"]] * (nd - 2)) if op["op"] == "slice" else op
                        yield self.grid_case(klass, [dict(op, reads=[], observe=False, sel=name)], reads=[{"what": rd, "axis": ax}],
                                             carriers=[car] * nd, tags=["grid:warm_selection", "carrier:" + car],
                                             model="edges", model_axis=ax, n_x=[4, 5, 3])

    def neighbours(self, case):
        """of a history with projections: the same history with the axes of every projection in every other order;
        of a history with selections: the same history with each read of the numpy-style edges put before every operation"""
        import itertools
        if case.get("kind") != "derived":
            return
        ops = case["ops"]
        for i, op in enumerate(ops):
            if op["op"] == "projection" and "order" in op and len(op["order"]) > 1:
                for perm in itertools.permutations(op["order"]):
                    if list(perm) != list(op["order"]):
                        yield dict(case, ops=ops[:i] + [dict(op, order=list(perm))] + ops[i + 1:])
        if any(op["op"] in ("slice", "select") for op in ops):
            for rd in EDGE_READS:
                for ax in (0, 1):
                    r = [{"what": rd, "axis": ax}]
                    yield dict(case, reads=list(case["reads"]) + r, ops=[dict(op, reads=list(op.get("reads") or []) + r) for op in ops])

    def shrink_candidates(self, case):
        if case.get("kind") != "derived":
            return
        ops = case["ops"]
        if case.get("carriers") and any(c not in (None, "pairs", "fixed") for c in case["carriers"]):
            cars = [c if c == "fixed" else "pairs" for c in case["carriers"]]                            # plain pairs of edges
            yield dict(case, carriers=cars, tags=[t for t in case["tags"] if not t.startswith("carrier:")] + ["carrier:" + c for c in cars])
        if case.get("axis_names"):
            yield {k_: v for k_, v in case.items() if k_ != "axis_names"}                                # the default names
        for i, op in enumerate(ops):
            if op["op"] == "projection" and "order" in op:
                if len(op["order"]) > 1:                # one axis fewer (the others keep their order)
                    for j in range(len(op["order"])):
                        yield dict(case, ops=ops[:i] + [dict(op, order=op["order"][:j] + op["order"][j + 1:])] + ops[i + 1:])
                if op["by"] != ["index"]:
                    yield dict(case, ops=ops[:i] + [dict(op, by=["index"])] + ops[i + 1:])
        for i in range(len(ops)):                       # fewer derivations
            yield dict(case, ops=ops[:i] + ops[i + 1:])
        for i in range(len(case["reads"])):             # fewer reads on the source
            yield dict(case, reads=case["reads"][:i] + case["reads"][i + 1:])
        for i, op in enumerate(ops):                    # no reads / observations in between
            if op.get("reads") or op.get("observe"):
                yield dict(case, ops=ops[:i] + [dict(op, reads=[], observe=False)] + ops[i + 1:])
        for i, op in enumerate(ops):
            if op["op"] == "fill" and len(op["values"]) > 1:
                yield dict(case, ops=ops[:i] + [dict(op, values=op["values"][:-1])] + ops[i + 1:])


PROP = C16()

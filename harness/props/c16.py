"""C16 — densities, bin geometry and cumulative values are consistent."""
from __future__ import annotations

import math
import warnings
from fractions import Fraction

import numpy as np

from .. import gen1
from ..core import nrs, rs
from ..runner import diff_outputs

warnings.simplefilter("ignore")

CLASSES = {
    "Histogram1D": 1, "RadialHistogram": 1, "AzimuthalHistogram": 1, "PolarHistogram": 2, "SphericalSurfaceHistogram": 2,
    "CylindricalSurfaceHistogram": 2, "SphericalHistogram": 3, "CylindricalHistogram": 3, "HistogramND": None, "Histogram2D": 2,
}
KIND = {  # coordinate kind of every axis
    "Histogram1D": ["x"], "RadialHistogram": ["r"], "AzimuthalHistogram": ["phi"], "PolarHistogram": ["r", "phi"],
    "SphericalSurfaceHistogram": ["theta", "phi"], "CylindricalSurfaceHistogram": ["phi", "z"],
    "SphericalHistogram": ["r", "theta", "phi"], "CylindricalHistogram": ["r", "phi", "z"],
}


def axis_edges(rng, kind, full):
    n = rng.randint(1, 4)
    if kind == "r":
        e = sorted({0.0 if (full or rng.random() < 0.5) else rng.uniform(0.1, 1)} | {rng.uniform(0.2, 5) for _ in range(n)})
    elif kind == "phi":
        hi = 2 * math.pi
        e = [0.0] + sorted(rng.uniform(0.1, hi - 0.1) for _ in range(n - 1)) + [hi] if full else sorted(rng.uniform(0, hi) for _ in range(n + 1))
    elif kind == "theta":
        hi = math.pi
        e = [0.0] + sorted(rng.uniform(0.1, hi - 0.1) for _ in range(n - 1)) + [hi] if full else sorted(rng.uniform(0, hi) for _ in range(n + 1))
    else:
        e = sorted(rng.uniform(-5, 5) for _ in range(n + 1))
    e = sorted(set(e))
    if len(e) < 2:
        e = [e[0], e[0] + 1.0]
    return e


def measure_py(klass, cell):
    """independent restatement of the bin measures (float math)"""
    if klass in ("Histogram1D", "AzimuthalHistogram"):
        (l, r), = cell
        return r - l
    if klass == "RadialHistogram":
        (l, r), = cell
        return math.pi * (r * r - l * l)
    if klass == "PolarHistogram":
        (r1, r2), (p1, p2) = cell
        return (r2 * r2 - r1 * r1) / 2 * (p2 - p1)
    if klass == "SphericalSurfaceHistogram":
        (t1, t2), (p1, p2) = cell
        return (math.cos(t1) - math.cos(t2)) * (p2 - p1)
    if klass == "CylindricalSurfaceHistogram":
        (p1, p2), (z1, z2) = cell
        return (p2 - p1) * (z2 - z1)
    if klass == "SphericalHistogram":
        (r1, r2), (t1, t2), (p1, p2) = cell
        return (r2 ** 3 - r1 ** 3) / 3 * (math.cos(t1) - math.cos(t2)) * (p2 - p1)
    if klass == "CylindricalHistogram":
        (q1, q2), (p1, p2), (z1, z2) = cell
        return (q2 * q2 - q1 * q1) / 2 * (p2 - p1) * (z2 - z1)
    m = 1.0
    for l, r in cell:
        m *= (r - l)
    return m


class C16:
    ID = "C16"
    N_QUICK = 300
    N_THOROUGH = 6000
    N_SEARCH = 300
    RULE = ("a histogram of every class (1-D, 2-D, ND up to 4 axes, radial, azimuthal, polar, spherical, sphere surface, "
            "cylindrical, cylinder surface) with irregular (also gapped, for plain classes also tiny-gap) bins — full angular "
            "ranges in a share of the cases — and arbitrary contents of every dtype (int16 contents whose running sum "
            "exceeds the type); observed: bin_sizes, densities, total_size / total_width, edges / centres / widths (per axis and "
            "mesh forms), cumulative_frequencies. non-trivial = more than one bin and non-zero contents; distinct = case hash")
    ASSUMPTIONS = ["libm cos is accurate to a few ulps: measures are compared with relative tolerance 1e-12"]
    EXTRA_TRUST = ["the theorems are over the real numbers (Mathlib); the float evaluation of the same formulas is compared with tolerance"]

    def gen_case(self, rng, k, tier):
        klass = rng.choice(list(CLASSES))
        d = CLASSES[klass] or rng.choice([3, 4])
        full = rng.random() < 0.3
        tags = ["class:" + klass]
        if klass in KIND:
            axes = [axis_edges(rng, kd, full) for kd in KIND[klass]]
            pairs = [[[e[i], e[i + 1]] for i in range(len(e) - 1)] for e in axes]
        else:
            pairs = []
            for _ in range(d):
                p, t = gen1.rising_bins(rng)
                pairs.append(p[:3])
                if t["gapped"]:
                    tags.append("gapped")
        if klass == "Histogram1D" and rng.random() < 0.5:
            p, t = gen1.rising_bins(rng)
            pairs = [p]
            if t["gapped"]:
                tags.append("gapped")
        shape = [len(p) for p in pairs]
        size = int(np.prod(shape))
        dt = rng.choice(["int64", "float64", "int16", "int32", "float32"])
        if dt == "int16" and rng.random() < 0.5:
            vals = [rng.choice([20000, 15000, 5, 7]) for _ in range(size)]
        elif dt.startswith("int"):
            vals = [rng.randint(0, 9) for _ in range(size)]
        else:
            vals = [rng.randint(0, 40) / 4 for _ in range(size)]
        return {"kind": "measure", "class": klass, "axes": [[[rs(l), rs(r)] for l, r in p] for p in pairs], "shape": shape,
                "freq": [rs(v) for v in vals], "dtype": dt, "full": full, "tags": tags}

    def run_impl(self, case):
        import physt
        from physt import special_histograms as sp
        from physt.histogram1d import Histogram1D
        from physt.histogram_nd import Histogram2D, HistogramND
        klass = {"Histogram1D": Histogram1D, "Histogram2D": Histogram2D, "HistogramND": HistogramND}.get(case["class"]) or getattr(sp, case["class"])
        pairs = [np.array([[float(Fraction(l)), float(Fraction(r))] for l, r in ax]) for ax in case["axes"]]
        f = np.array([float(Fraction(v)) for v in case["freq"]]).astype(case["dtype"]).reshape(case["shape"])
        if len(pairs) == 1:
            h = klass(pairs[0], f)
        elif case["class"] == "HistogramND":
            h = klass(pairs, f, dimension=len(pairs))
        else:
            h = klass(pairs, f)
        out = {"bin_sizes": [nrs(x) for x in np.asarray(h.bin_sizes).ravel()],
               "densities": [nrs(x) for x in np.asarray(h.densities).ravel()],
               "freq": [nrs(x) for x in np.asarray(h.frequencies).ravel()],
               "total": nrs(h.total), "shape_sizes": list(np.asarray(h.bin_sizes).shape)}
        if len(pairs) == 1:
            out["total_width"] = nrs(h.total_width)
            out["left"] = [nrs(x) for x in h.bin_left_edges]
            out["right"] = [nrs(x) for x in h.bin_right_edges]
            out["centers"] = [nrs(x) for x in h.bin_centers]
            out["widths"] = [nrs(x) for x in h.bin_widths]
            out["cumulative"] = [nrs(x) for x in h.cumulative_frequencies]
            out["min_edge"], out["max_edge"] = nrs(h.min_edge), nrs(h.max_edge)
        else:
            out["total_size"] = nrs(h.total_size)
            out["left"] = [[nrs(x) for x in h.get_bin_left_edges(i)] for i in range(h.ndim)]
            out["right"] = [[nrs(x) for x in h.get_bin_right_edges(i)] for i in range(h.ndim)]
            out["centers"] = [[nrs(x) for x in h.get_bin_centers(i)] for i in range(h.ndim)]
            out["widths"] = [[nrs(x) for x in h.get_bin_widths(i)] for i in range(h.ndim)]
            mesh = h.get_bin_centers()
            out["mesh_centers_shape"] = [list(np.asarray(m).shape) for m in mesh]
            out["mesh_centers00"] = [nrs(np.asarray(m).ravel()[0]) for m in mesh]
            wm = h.get_bin_widths()
            out["mesh_widths_last"] = [nrs(np.asarray(m).ravel()[-1]) for m in wm]
        # additivity under merging: merge_bins(2) along every axis, on a copy
        out["merged"] = []
        for a in range(len(pairs)):
            if len(pairs[a]) < 2:
                continue
            try:
                m = h.merge_bins(2, axis=a) if len(pairs) > 1 else h.merge_bins(2)
            except Exception as e:
                out["merged"].append({"axis": a, "ret": "REFUSED", "why": f"{type(e).__name__}: {e}"[:120]})
                continue
            mb = [np.asarray(m.bins).reshape(-1, 2)] if len(pairs) == 1 else [np.asarray(b).reshape(-1, 2) for b in m.bins]
            out["merged"].append({"axis": a, "ret": "ok", "bins": [[nrs(l), nrs(r)] for l, r in mb[a]],
                                  "sizes": [nrs(x) for x in np.asarray(m.bin_sizes).ravel()],
                                  "shape": list(np.asarray(m.bin_sizes).shape),
                                  "total_measure": nrs(m.total_width if len(pairs) == 1 else m.total_size)})
        return {"outs": out, "log": []}

    def model_case(self, case, io):
        c = {"kind": "measure", "class": "HistogramND" if case["class"] == "Histogram2D" else case["class"], "axes": case["axes"]}
        return c

    def diff(self, case, model_ok, io):
        got = io["outs"]["bin_sizes"]
        d = []
        if len(model_ok) != len(got):
            return [f"bin_sizes length: model {len(model_ok)} impl {len(got)}"]
        for i, (a, b) in enumerate(zip(model_ok, got)):
            x, y = Fraction(a), Fraction(b)
            if abs(x - y) > Fraction(1, 10**11) * max(abs(x), abs(y), Fraction(1, 10**6)):
                d.append(f"bin_sizes[{i}]: model={float(x)} impl={float(y)}")
        return d[:6]

    def oracle(self, case, io):
        o = io["outs"]
        fails = []
        axes = [[(float(Fraction(l)), float(Fraction(r))) for l, r in ax] for ax in case["axes"]]
        import itertools
        cells = list(itertools.product(*axes))
        klass = "HistogramND" if case["class"] == "Histogram2D" else case["class"]
        sizes = [measure_py(klass, c) for c in cells]
        bs = [float(Fraction(x)) for x in o["bin_sizes"]]
        tol = lambda a, b: abs(a - b) <= 1e-11 * max(abs(a), abs(b), 1e-6)
        if o["shape_sizes"] != case["shape"]:
            fails.append(f"size_shape: bin_sizes has shape {o['shape_sizes']}, the histogram {case['shape']}")
        elif not all(tol(a, b) for a, b in zip(bs, sizes)):
            k = next(i for i, (a, b) in enumerate(zip(bs, sizes)) if not tol(a, b))
            fails.append(f"bin_size: {case['class']} cell {cells[k]} has bin_size {bs[k]}, its measure is {sizes[k]}")
        f = [float(Fraction(x)) for x in o["freq"]]
        for i, (dn, s, fr) in enumerate(zip(o["densities"], bs, f)):
            if s != 0 and dn is not None and dn not in ("inf", "-inf"):
                if not tol(float(Fraction(dn)) * s, fr) and abs(float(Fraction(dn)) * s - fr) > 1e-9:
                    fails.append(f"density: densities*bin_sizes = {float(Fraction(dn)) * s} but frequency is {fr} (cell {i})")
                    break
        key = "total_width" if len(axes) == 1 else "total_size"
        # total_width is the summed *width* of a 1-D axis (also for the radial class); total_size the summed measure
        covered = sum(r - l for l, r in axes[0]) if len(axes) == 1 else sum(sizes)
        if not tol(float(Fraction(o[key])), covered) and abs(float(Fraction(o[key])) - covered) > 1e-9:
            fails.append(f"total_measure: {key} = {float(Fraction(o[key]))}, the covered region measures {covered}")
        total_measure = sum(bs)
        if case["full"] and case["class"] in KIND:
            R = axes[0][-1][1]
            exp = {"PolarHistogram": math.pi * R * R, "RadialHistogram": math.pi * R * R,
                   "SphericalSurfaceHistogram": 4 * math.pi, "SphericalHistogram": 4 / 3 * math.pi * R ** 3}.get(case["class"])
            if exp is not None and axes[0][0][0] == 0.0 and not tol(total_measure, exp) and abs(total_measure - exp) > 1e-9:
                fails.append(f"full_range_total: the bin measures sum to {total_measure}, expected {exp}")
        # additivity: merging runs of two adjacent bins along an axis adds their measures (and is refused across a gap)
        for mg in o.get("merged", []):
            a = mg["axis"]
            ax = axes[a]
            runs = [ax[i:i + 2] for i in range(0, len(ax), 2)]
            gap = any(len(r) == 2 and r[0][1] != r[1][0] for r in runs)
            if mg["ret"] != "ok":
                if not gap:
                    fails.append(f"merge_refused: merging adjacent bins of axis {a} was refused: {mg['why']}")
                continue
            if gap:
                fails.append(f"merged_across_gap: axis {a}: a run of two bins that do not touch was merged into one bin "
                             f"(its measure is no longer the sum of the parts)")
                continue
            want_bins = [(r[0][0], r[-1][1]) for r in runs]
            got_bins = [(float(Fraction(l)), float(Fraction(r))) for l, r in mg["bins"]]
            if got_bins != want_bins:
                fails.append(f"merged_edges: axis {a}: merged bins {got_bins}, expected {want_bins}")
                continue
            # measure of every merged cell = sum of the measures of its parts
            shp = list(case["shape"]); arr = np.array(bs).reshape(shp)
            idx = [slice(None)] * len(shp)
            parts = []
            for i in range(0, shp[a], 2):
                idx[a] = slice(i, i + 2)
                parts.append(arr[tuple(idx)].sum(axis=a))
            want = np.stack(parts, axis=a).ravel()
            got = np.array([float(Fraction(x)) for x in mg["sizes"]])
            if got.shape != want.shape or not all(tol(x, y) or abs(x - y) <= 1e-9 for x, y in zip(got, want)):
                fails.append(f"merge_additive: axis {a}: measures of the merged bins {got.tolist()[:6]} are not the sums of their parts {want.tolist()[:6]}")
            if len(axes) > 1 or case["class"] != "RadialHistogram":
                tm = float(Fraction(mg["total_measure"]))
                tm0 = float(Fraction(o[key]))
                if not tol(tm, tm0) and abs(tm - tm0) > 1e-9:
                    fails.append(f"merge_total_measure: axis {a}: {key} changed from {tm0} to {tm} by merging")
        # edges / centres / widths
        L = [o["left"]] if len(axes) == 1 else o["left"]
        Rr = [o["right"]] if len(axes) == 1 else o["right"]
        C = [o["centers"]] if len(axes) == 1 else o["centers"]
        W = [o["widths"]] if len(axes) == 1 else o["widths"]
        for a, ax in enumerate(axes):
            if [float(Fraction(x)) for x in L[a]] != [l for l, _ in ax] or [float(Fraction(x)) for x in Rr[a]] != [r for _, r in ax]:
                fails.append(f"edges: left/right edges of axis {a} differ from bins")
            for (l, r), c, w in zip(ax, C[a], W[a]):
                if float(Fraction(c)) != (l + r) / 2 or float(Fraction(w)) != r - l:
                    fails.append(f"centre_width: axis {a} bin [{l},{r}] centre {float(Fraction(c))} width {float(Fraction(w))}")
                    break
        if len(axes) == 1:
            run, cum = Fraction(0), []
            for x in o["freq"]:
                run += Fraction(x); cum.append(run)
            got = [None if x is None else Fraction(x) for x in o["cumulative"]]
            if got != cum:
                fails.append(f"cumulative: cumulative_frequencies = {o['cumulative']}, running sums are {[str(c) for c in cum]}")
            elif cum and cum[-1] != Fraction(o["total"]):
                fails.append("cumulative_total: the running sum does not end at total")
            if float(Fraction(o["min_edge"])) != axes[0][0][0] or float(Fraction(o["max_edge"])) != axes[0][-1][1]:
                fails.append("outer_edges: min_edge / max_edge differ from bins")
        else:
            if any(s != case["shape"] for s in o["mesh_centers_shape"]):
                fails.append(f"mesh_shape: mesh of centres has shapes {o['mesh_centers_shape']}, expected {case['shape']}")
            if [float(Fraction(x)) for x in o["mesh_centers00"]] != [(ax[0][0] + ax[0][1]) / 2 for ax in axes]:
                fails.append("mesh_centres: first mesh entry is not the first bin centre of every axis")
            if [float(Fraction(x)) for x in o["mesh_widths_last"]] != [ax[-1][1] - ax[-1][0] for ax in axes]:
                fails.append("mesh_widths: last mesh entry is not the last bin width of every axis")
        return fails[:6]

    def nontrivial(self, case, io):
        return len(case["freq"]) > 1 and any(v != "0" for v in case["freq"])

    def tags(self, case, io):
        return list(case["tags"]) + ["dtype:" + case["dtype"], "full" if case["full"] else "partial"]

    def matches_known(self, finding, case):
        return True

    def neighbours(self, case):
        return []

    def shrink_candidates(self, case):
        return []


PROP = C16()

"""C16 — densities, bin geometry and cumulative values are consistent."""
from __future__ import annotations

import math
import warnings
from fractions import Fraction

import numpy as np

from .. import gen1
from ..core import nrs, rs
from ..runner import diff_outputs

warnings.simplefilter("ignore")

CLASSES = {
    "Histogram1D": 1, "RadialHistogram": 1, "AzimuthalHistogram": 1, "PolarHistogram": 2, "SphericalSurfaceHistogram": 2,
    "CylindricalSurfaceHistogram": 2, "SphericalHistogram": 3, "CylindricalHistogram": 3, "HistogramND": None, "Histogram2D": 2,
}
KIND = {  # coordinate kind of every axis
    "Histogram1D": ["x"], "RadialHistogram": ["r"], "AzimuthalHistogram": ["phi"], "PolarHistogram": ["r", "phi"],
    "SphericalSurfaceHistogram": ["theta", "phi"], "CylindricalSurfaceHistogram": ["phi", "z"],
    "SphericalHistogram": ["r", "theta", "phi"], "CylindricalHistogram": ["r", "phi", "z"],
}


def axis_edges(rng, kind, full, n=None):
    n = n or rng.randint(1, 4)
    if kind == "r":
        e = sorted({0.0 if (full or rng.random() < 0.5) else rng.uniform(0.1, 1)} | {rng.uniform(0.2, 5) for _ in range(n)})
    elif kind == "phi":
        hi = 2 * math.pi
        e = [0.0] + sorted(rng.uniform(0.1, hi - 0.1) for _ in range(n - 1)) + [hi] if full else sorted(rng.uniform(0, hi) for _ in range(n + 1))
    elif kind == "theta":
        hi = math.pi
        e = [0.0] + sorted(rng.uniform(0.1, hi - 0.1) for _ in range(n - 1)) + [hi] if full else sorted(rng.uniform(0, hi) for _ in range(n + 1))
    else:
        e = sorted(rng.uniform(-5, 5) for _ in range(n + 1))
    e = sorted(set(e))
    if len(e) < 2:
        e = [e[0], e[0] + 1.0]
    return e


def measure_py(klass, cell):
    """independent restatement of the bin measures (float math)"""
    if klass in ("Histogram1D", "AzimuthalHistogram"):
        (l, r), = cell
        return r - l
    if klass == "RadialHistogram":
        (l, r), = cell
        return math.pi * (r * r - l * l)
    if klass == "PolarHistogram":
        (r1, r2), (p1, p2) = cell
        return (r2 * r2 - r1 * r1) / 2 * (p2 - p1)
    if klass == "SphericalSurfaceHistogram":
        (t1, t2), (p1, p2) = cell
        return (math.cos(t1) - math.cos(t2)) * (p2 - p1)
    if klass == "CylindricalSurfaceHistogram":
        (p1, p2), (z1, z2) = cell
        return (p2 - p1) * (z2 - z1)
    if klass == "SphericalHistogram":
        (r1, r2), (t1, t2), (p1, p2) = cell
        return (r2 ** 3 - r1 ** 3) / 3 * (math.cos(t1) - math.cos(t2)) * (p2 - p1)
    if klass == "CylindricalHistogram":
        (q1, q2), (p1, p2), (z1, z2) = cell
        return (q2 * q2 - q1 * q1) / 2 * (p2 - p1) * (z2 - z1)
    m = 1.0
    for l, r in cell:
        m *= (r - l)
    return m


# ---------------------------------------------------------------------------------------------------------------------
# stream "derived": the same clauses on DERIVED histograms and on histograms WITH A HISTORY of reads
# ---------------------------------------------------------------------------------------------------------------------
PLAIN = ("Histogram1D", "Histogram2D", "HistogramND")
# every geometry observable the property names; a read is {"what": <name>, "axis": <int>}
READS = ["sizes", "densities", "total", "widths", "left", "right", "centers", "bins", "mesh_widths", "mesh_centers", "cumulative"]
# derivations by family (the family is drawn first, so that the rare kinds get their share)
FAMILIES = {
    "axes": ["T"],                                                             # same contents, axes re-arranged (Histogram2D)
    "same": ["copy", "mul", "div", "imul", "idiv", "add", "iadd", "normalize"],  # same bins, other contents
    "rebin": ["merge", "projection", "slice", "select"],                         # other bins
    "grow": ["fill"],                                                          # adaptive growth in place
}


def fl(x):
    """observed number (rational string / None for NaN / 'inf') -> float"""
    if x is None:
        return math.nan
    if x in ("inf", "-inf"):
        return math.inf if x == "inf" else -math.inf
    a, _, b = x.partition("/")          # "n" or "n/d": int / int is correctly rounded, the same value as float(Fraction(x))
    return int(a) / int(b) if b else float(int(a))


def do_read(h, rd):
    """read one geometry observable of the histogram (the value is thrown away: only the history matters)"""
    w, a = rd["what"], rd.get("axis", 0)
    if h.ndim == 1:
        name = {"sizes": "bin_sizes", "densities": "densities", "total": "total_width", "widths": "bin_widths",
                "left": "bin_left_edges", "right": "bin_right_edges", "centers": "bin_centers", "bins": "bins",
                "mesh_widths": "bin_widths", "mesh_centers": "bin_centers", "cumulative": "cumulative_frequencies"}[w]
        return getattr(h, name)
    a = a % h.ndim
    if w in ("sizes", "densities", "bins"):
        return getattr(h, {"sizes": "bin_sizes", "densities": "densities", "bins": "bins"}[w])
    if w in ("total", "cumulative"):
        return h.total_size
    if w == "mesh_widths":
        return h.get_bin_widths()
    if w == "mesh_centers":
        return h.get_bin_centers()
    return {"widths": h.get_bin_widths, "left": h.get_bin_left_edges, "right": h.get_bin_right_edges, "centers": h.get_bin_centers}[w](a)


def observe(h):
    """every observable of the property, read from the histogram as it is now; `bins` are its own current bins"""
    nd = h.ndim
    own = [np.asarray(h.bins).reshape(-1, 2)] if nd == 1 else [np.asarray(b).reshape(-1, 2) for b in h.bins]
    out = {"class": type(h).__name__, "bins": [[[nrs(l), nrs(r)] for l, r in b] for b in own],
           "freq_shape": list(np.asarray(h.frequencies).shape), "dtype": str(np.asarray(h.frequencies).dtype)}
    if any(len(b) == 0 for b in own):
        out["empty"] = True
        return out
    out.update({"bin_sizes": [nrs(x) for x in np.asarray(h.bin_sizes).ravel()],
                "densities": [nrs(x) for x in np.asarray(h.densities).ravel()],
                "freq": [nrs(x) for x in np.asarray(h.frequencies).ravel()],
                "total": nrs(h.total), "shape_sizes": list(np.asarray(h.bin_sizes).shape)})
    if nd == 1:
        out["total_width"] = nrs(h.total_width)
        out["left"] = [nrs(x) for x in h.bin_left_edges]
        out["right"] = [nrs(x) for x in h.bin_right_edges]
        out["centers"] = [nrs(x) for x in h.bin_centers]
        out["widths"] = [nrs(x) for x in h.bin_widths]
        out["cumulative"] = [nrs(x) for x in h.cumulative_frequencies]
        out["min_edge"], out["max_edge"] = nrs(h.min_edge), nrs(h.max_edge)
    else:
        out["total_size"] = nrs(h.total_size)
        out["left"] = [[nrs(x) for x in h.get_bin_left_edges(i)] for i in range(nd)]
        out["right"] = [[nrs(x) for x in h.get_bin_right_edges(i)] for i in range(nd)]
        out["centers"] = [[nrs(x) for x in h.get_bin_centers(i)] for i in range(nd)]
        out["widths"] = [[nrs(x) for x in h.get_bin_widths(i)] for i in range(nd)]
        mesh = h.get_bin_centers()
        out["mesh_centers_shape"] = [list(np.asarray(m).shape) for m in mesh]
        out["mesh_centers00"] = [nrs(np.asarray(m).ravel()[0]) for m in mesh]
        wm = h.get_bin_widths()
        out["mesh_widths_last"] = [nrs(np.asarray(m).ravel()[-1]) for m in wm]
    # additivity under merging: merge_bins(2) along every axis, on a copy
    out["merged"] = []
    for a in range(nd):
        if len(own[a]) < 2:
            continue
        try:
            m = h.merge_bins(2, axis=a) if nd > 1 else h.merge_bins(2)
        except Exception as e:
            out["merged"].append({"axis": a, "ret": "REFUSED", "why": f"{type(e).__name__}: {e}"[:120]})
            continue
        mb = [np.asarray(m.bins).reshape(-1, 2)] if nd == 1 else [np.asarray(b).reshape(-1, 2) for b in m.bins]
        out["merged"].append({"axis": a, "ret": "ok", "bins": [[nrs(l), nrs(r)] for l, r in mb[a]],
                              "sizes": [nrs(x) for x in np.asarray(m.bin_sizes).ravel()],
                              "shape": list(np.asarray(m.bin_sizes).shape),
                              "total_measure": nrs(m.total_width if nd == 1 else m.total_size)})
    return out


def build(case):
    """the source histogram of a case, through the public constructors"""
    from physt import special_histograms as sp
    from physt.binnings import FixedWidthBinning
    from physt.histogram1d import Histogram1D
    from physt.histogram_nd import Histogram2D, HistogramND
    klass = {"Histogram1D": Histogram1D, "Histogram2D": Histogram2D, "HistogramND": HistogramND}.get(case["class"]) or getattr(sp, case["class"])
    pairs = [np.array([[float(Fraction(l)), float(Fraction(r))] for l, r in ax]) for ax in case["axes"]]
    for a, spec in enumerate(case.get("adaptive") or []):
        if spec:     # a fixed-width binning that grows when a value outside is filled; its bins are those listed in `axes`
            pairs[a] = FixedWidthBinning(bin_width=float(Fraction(spec["w"])), bin_count=len(case["axes"][a]),
                                         min=float(Fraction(spec["min"])), adaptive=True)
    f = np.array([float(Fraction(v)) for v in case["freq"]]).astype(case["dtype"]).reshape(case["shape"])
    if len(pairs) == 1:
        return klass(pairs[0], f)
    if case["class"] == "HistogramND":
        return klass(pairs, f, dimension=len(pairs))
    return klass(pairs, f)


def apply_op(h, op):
    """one derivation through the public API; returns the derived histogram (the same object for the in-place kinds).
    Positions are reduced modulo the current shape, so every op is meaningful whatever the earlier ops did."""
    from physt.special_histograms import TransformedHistogramMixin
    kind = op["op"]
    nd = h.ndim
    if kind == "T":
        if not hasattr(h, "T"):
            return None
        return h.T
    if kind == "copy":
        return h.copy()
    if kind in ("mul", "div", "imul", "idiv"):
        k = float(Fraction(op["k"]))
        if kind == "mul":
            return h * k if not op.get("int") else h * int(k)
        if kind == "div":
            return h / k
        if kind == "imul":
            h *= (int(k) if op.get("int") else k)
            return h
        h /= k
        return h
    if kind == "add":
        return h + h.copy()
    if kind == "iadd":
        h += h.copy()
        return h
    if kind == "normalize":
        return h.normalize(inplace=bool(op.get("inplace")), percent=bool(op.get("percent")))
    if kind == "merge":
        kw = {"inplace": bool(op.get("inplace"))}
        if nd > 1 and op.get("axis") is not None:
            kw["axis"] = op["axis"] % nd
        r = h.merge_bins(op["amount"], **kw)
        return h if op.get("inplace") else r
    if kind == "projection":
        if nd == 1:
            return None
        axes = sorted({a % nd for a in op["axes"]})
        if len(axes) == nd:
            axes = axes[:-1]
        return h.projection(*axes)
    if kind in ("slice", "select"):
        shape = list(h.shape)

        def sl(spec, n):
            if spec[0] == "s":
                start = spec[1] % n
                stop = start + 1 + spec[2] % (n - start)
                return slice(start if (start or spec[3]) else None, stop if (stop < n or spec[3]) else None)
            if spec[0] == "i":
                return int(spec[1] % n)
            return sorted({int(x % n) for x in spec[1]})
        if kind == "select":
            a = op["axis"] % nd
            ix = sl(op["index"], shape[a])
            if nd == 1 and isinstance(ix, int):
                return None                      # one bin of a 1-D histogram is a pair, not a histogram
            return h.select(a, ix)
        idx = [sl(sp_, shape[a]) for a, sp_ in zip(range(nd), op["index"])]
        if nd == 1:
            return None if isinstance(idx[0], int) else h[idx[0]]
        if all(isinstance(i, int) for i in idx) and len(idx) == nd:
            return None
        return h[tuple(idx)]
    if kind == "fill":
        kw = {"transformed": True} if isinstance(h, TransformedHistogramMixin) else {}
        pts = [[float(Fraction(x)) for x in p] for p in op["values"]]      # resolved by resolve_points
        if op.get("n"):
            h.fill_n([p[0] for p in pts] if nd == 1 else pts, **kw)
        else:
            for p in pts:
                h.fill(p[0] if nd == 1 else p, **kw)
        return h
    raise ValueError(kind)


def resolve_points(h, values):
    """fill positions given relative to the current bins of every axis (below the first bin / above the last by j + 1/2 bin
    widths, or the centre of bin j) -> coordinates"""
    nd = h.ndim
    own = [np.asarray(h.bins).reshape(-1, 2)] if nd == 1 else [np.asarray(b).reshape(-1, 2) for b in h.bins]
    pts = []
    for p in values:
        pt = []
        for a in range(nd):
            where, j = p[a % len(p)]
            b = own[a]
            if len(b) == 0:
                v = 0.0
            elif where == "lo":
                v = b[0][0] - (j + 0.5) * (b[0][1] - b[0][0])
            elif where == "hi":
                v = b[-1][1] + (j + 0.5) * (b[-1][1] - b[-1][0])
            else:
                l, r = b[j % len(b)]
                v = (l + r) / 2
            pt.append(rs(float(v)))
        pts.append(pt)
    return pts


def is_full(klass, axes):
    """the bins cover the whole angular range(s) and the radius starts at 0, without gaps (from the current bins)"""
    if klass not in KIND or len(KIND[klass]) != len(axes):
        return False
    for kd, ax in zip(KIND[klass], axes):
        if any(ax[i][1] != ax[i + 1][0] for i in range(len(ax) - 1)):
            return False
        if kd == "r" and ax[0][0] != 0.0:
            return False
        if kd == "phi" and (ax[0][0] != 0.0 or ax[-1][1] != 2 * math.pi):
            return False
        if kd == "theta" and (ax[0][0] != 0.0 or ax[-1][1] != math.pi):
            return False
    return True


class C16:
    ID = "C16"
    N_QUICK = 400
    N_THOROUGH = 8000
    N_SEARCH = 300
    RULE = ("a histogram of every class (1-D, 2-D, ND up to 4 axes, radial, azimuthal, polar, spherical, sphere surface, "
            "cylindrical, cylinder surface) with irregular (also gapped, for plain classes also tiny-gap) bins — full angular "
            "ranges in a share of the cases — and arbitrary contents of every dtype (int16 contents whose running sum "
            "exceeds the type); observed: bin_sizes, densities, total_size / total_width, edges / centres / widths (per axis and "
            "mesh forms), cumulative_frequencies. Every 4th case (stream:derived) evaluates the same clauses on a DERIVED "
            "histogram with a HISTORY of reads: a source of any class (square and non-square shapes, different irregular axes, "
            "a share with adaptive fixed-width axes), an arbitrary subset of the geometry observables read on it, then a chain of "
            "1-3 derivations drawn by family (T; copy, * / scalar, + , normalize, also in place; merge_bins on any / all axes, "
            "projection, slicing, select; adaptive growth by fill / fill_n), more reads in between; every clause is evaluated on "
            "the result (and on a share of the intermediate results) from its OWN current bins and class. "
            "non-trivial = more than one bin and non-zero contents (derived: at least one derivation succeeded); distinct = case hash")
    ASSUMPTIONS = ["libm cos is accurate to a few ulps: measures are compared with relative tolerance 1e-12"]
    EXTRA_TRUST = ["the theorems are over the real numbers (Mathlib); the float evaluation of the same formulas is compared with tolerance"]

    def gen_case(self, rng, k, tier):
        if k % 4 == 1:
            return self.gen_derived(rng)
        klass = rng.choice(list(CLASSES))
        d = CLASSES[klass] or rng.choice([3, 4])
        full = rng.random() < 0.3
        tags = ["class:" + klass]
        if klass in KIND:
            axes = [axis_edges(rng, kd, full) for kd in KIND[klass]]
            pairs = [[[e[i], e[i + 1]] for i in range(len(e) - 1)] for e in axes]
        else:
            pairs = []
            for _ in range(d):
                p, t = gen1.rising_bins(rng)
                pairs.append(p[:3])
                if t["gapped"]:
                    tags.append("gapped")
        if klass == "Histogram1D" and rng.random() < 0.5:
            p, t = gen1.rising_bins(rng)
            pairs = [p]
            if t["gapped"]:
                tags.append("gapped")
        shape = [len(p) for p in pairs]
        size = int(np.prod(shape))
        dt = rng.choice(["int64", "float64", "int16", "int32", "float32"])
        if dt == "int16" and rng.random() < 0.5:
            vals = [rng.choice([20000, 15000, 5, 7]) for _ in range(size)]
        elif dt.startswith("int"):
            vals = [rng.randint(0, 9) for _ in range(size)]
        else:
            vals = [rng.randint(0, 40) / 4 for _ in range(size)]
        return {"kind": "measure", "class": klass, "axes": [[[rs(l), rs(r)] for l, r in p] for p in pairs], "shape": shape,
                "freq": [rs(v) for v in vals], "dtype": dt, "full": full, "tags": tags}

    # ------------------------------------------------------------------------------------------------ stream "derived"
    @staticmethod
    def gen_reads(rng, p_any):
        if rng.random() >= p_any:
            return []
        rd = [w for w in READS if rng.random() < 0.5] or [rng.choice(READS)]
        rng.shuffle(rd)
        return [{"what": w, "axis": rng.randint(0, 3)} for w in rd]

    def gen_derived(self, rng):
        # by family: the 2-D class has the most derivations (the only one with T), the transformed family has seven classes
        fam = rng.choice(["plain1d", "plain2d", "plain2d", "plainnd", "transformed", "transformed"])
        klass = {"plain1d": "Histogram1D", "plain2d": "Histogram2D", "plainnd": "HistogramND"}.get(fam) \
            or rng.choice([c for c in CLASSES if c not in PLAIN])
        d = CLASSES[klass] or rng.choice([3, 4])
        plain = klass in PLAIN
        full = (not plain) and rng.random() < 0.3
        square = rng.random() < 0.6
        nmax = 4 if d <= 2 else 3
        n_sq = rng.randint(2, nmax)
        adaptive = [None] * d
        if rng.random() < 0.25:
            adaptive = [True if rng.random() < 0.6 else None for _ in range(d)]
            if not any(adaptive):
                adaptive[rng.randrange(d)] = True
            full = False
        tags = ["stream:derived", "class:" + klass]
        pairs = []
        for a in range(d):
            want = n_sq if square else rng.randint(1, nmax)
            kd = KIND[klass][a] if klass in KIND else "x"
            if adaptive[a]:
                w = rng.choice([0.25, 0.5, 1.0, 2.0])
                mn = 0.0 if kd != "x" and kd != "z" else rng.randint(-8, 8) * 0.25
                pairs.append([[mn + i * w, mn + (i + 1) * w] for i in range(want)])
                adaptive[a] = {"min": rs(mn), "w": rs(w)}
            elif not plain:
                e = axis_edges(rng, kd, full, n=want)
                pairs.append([[e[i], e[i + 1]] for i in range(len(e) - 1)])
            else:
                for _ in range(6):
                    p, t = gen1.rising_bins(rng)
                    if len(p) >= want:
                        break
                p = p[:want]
                if any(p[i][1] != p[i + 1][0] for i in range(len(p) - 1)):
                    tags.append("gapped")
                pairs.append(p)
        shape = [len(p) for p in pairs]
        size = int(np.prod(shape))
        if d > 1:
            tags.append("square" if len(set(shape)) == 1 and shape[0] > 1 else "nonsquare")
        if any(adaptive):
            tags.append("adaptive")
        dt = rng.choice(["int64", "float64", "int16", "int32", "float32"])
        vals = [rng.randint(0, 9) for _ in range(size)] if dt.startswith("int") else [rng.randint(0, 40) / 4 for _ in range(size)]
        vals[rng.randrange(size)] = rng.randint(1, 9)
        # ---- the history: reads on the source, then derivations (with reads in between)
        nd, is2d = d, klass == "Histogram2D"

        def slice_spec(allow_int, allow_list):
            r = rng.random()
            if allow_int and r < 0.25:
                return ["i", rng.randint(0, 5)]
            if allow_list and r < 0.5:
                return ["l", [rng.randint(0, 5) for _ in range(rng.randint(1, 3))]]
            return ["s", rng.randint(0, 5), rng.randint(0, 5), rng.random() < 0.5]

        ops = []
        for _ in range(rng.choice([1, 1, 2, 2, 3])):
            fams = ["same", "rebin"] + (["axes"] if is2d else []) + (["grow"] if any(adaptive) else [])
            kind = rng.choice(FAMILIES[rng.choice(fams)])
            if nd == 1 and kind == "projection":
                kind = "slice"
            op = {"op": kind}
            if kind in ("mul", "imul"):
                op["k"] = rng.choice(["2", "3", "3/2", "1/2", "5/4"])
                op["int"] = op["k"] in ("2", "3") and rng.random() < 0.5
            elif kind in ("div", "idiv"):
                op["k"] = rng.choice(["2", "4", "1/2", "3"])
            elif kind == "normalize":
                op["inplace"], op["percent"] = rng.random() < 0.4, rng.random() < 0.3
            elif kind == "merge":
                op["amount"], op["axis"], op["inplace"] = rng.randint(2, 3), rng.choice([None, 0, 1, 2, 3]), rng.random() < 0.4
            elif kind == "projection":
                op["axes"] = rng.sample(range(4), rng.randint(1, 2))
                kept = sorted({a % nd for a in op["axes"]})
                nd = len(kept) - (1 if len(kept) == nd else 0)
                is2d = plain and nd == 2
            elif kind == "slice":
                op["index"] = [slice_spec(nd > 1, nd == 1) for _ in range(4)]
                ints = [a for a in range(nd) if op["index"][a][0] == "i"]
                if len(ints) == nd:
                    op["index"][0] = ["s", rng.randint(0, 5), rng.randint(0, 5), False]
                    ints = ints[1:]
                nd -= len(ints)
                is2d = plain and nd == 2
            elif kind == "select":
                op["axis"], op["index"] = rng.randint(0, 3), slice_spec(nd > 1, False)
                if op["index"][0] == "i":
                    nd -= 1
                    is2d = plain and nd == 2
            elif kind == "fill":
                # positions relative to the CURRENT bins of each axis: below the first bin, above the last, inside bin j
                where = ["hi", "in"] if not plain else ["lo", "hi", "in"]
                op["values"] = [[[rng.choice(where if a == 0 else ["lo", "hi", "in"]), rng.randint(0, 2)] for a in range(4)]
                                for _ in range(rng.randint(1, 3))]
                op["n"] = rng.random() < 0.5
            op["reads"] = self.gen_reads(rng, 0.5)
            op["observe"] = rng.random() < 0.25
            ops.append(op)
        return {"kind": "derived", "class": klass, "axes": [[[rs(l), rs(r)] for l, r in p] for p in pairs], "shape": shape,
                "adaptive": adaptive, "freq": [rs(v) for v in vals], "dtype": dt, "full": full,
                "reads": self.gen_reads(rng, 0.85), "ops": ops, "tags": tags}

    def run_derived(self, case):
        h = build(case)
        read_errors, steps = [], []

        def reads(hh, rds, where):
            for rd in rds:
                try:
                    do_read(hh, rd)
                except Exception as e:
                    read_errors.append(f"{where}: reading {rd['what']} of a {type(hh).__name__}: {type(e).__name__}: {e}"[:200])

        def obs(hh):
            try:
                return observe(hh)
            except Exception as e:
                return {"class": type(hh).__name__, "error": f"{type(e).__name__}: {e}"[:200]}

        reads(h, case["reads"], "source")
        cur = h
        for i, op in enumerate(case["ops"]):
            if op["op"] == "fill":
                op = dict(op, values=resolve_points(cur, op["values"]))
            try:
                r = apply_op(cur, op)
            except Exception as e:
                steps.append({"op": op["op"], "ret": "REFUSED", "why": f"{type(e).__name__}: {e}"[:120]})
                continue
            if r is None:
                steps.append({"op": op["op"], "ret": "n/a"})
                continue
            cur = r
            st = {"op": op["op"], "ret": "ok", "class": type(cur).__name__}
            if op["op"] == "fill":
                st["points"] = op["values"]
            reads(cur, op.get("reads", []), f"after op {i} ({op['op']})")
            if op.get("observe"):
                st["obs"] = obs(cur)
            steps.append(st)
        out = obs(cur)
        out["steps"] = steps
        out["read_errors"] = read_errors
        return {"outs": out, "log": []}

    def run_impl(self, case):
        if case.get("kind") == "derived":
            return self.run_derived(case)
        h = build(case)
        out = observe(h)
        return {"outs": out, "log": []}

    def model_case(self, case, io):
        if case.get("kind") == "derived":
            # the model has no derivations: it is asked for the measures of the RESULT's own bins and class
            o = io["outs"]
            if "error" in o or o.get("empty"):
                return None
            return {"kind": "measure", "class": "HistogramND" if o["class"] == "Histogram2D" else o["class"], "axes": o["bins"]}
        c = {"kind": "measure", "class": "HistogramND" if case["class"] == "Histogram2D" else case["class"], "axes": case["axes"]}
        return c

    def diff(self, case, model_ok, io):
        got = io["outs"]["bin_sizes"]
        d = []
        if len(model_ok) != len(got):
            return [f"bin_sizes length: model {len(model_ok)} impl {len(got)}"]
        for i, (a, b) in enumerate(zip(model_ok, got)):
            x, y = Fraction(a), Fraction(b)
            if abs(x - y) > Fraction(1, 10**11) * max(abs(x), abs(y), Fraction(1, 10**6)):
                d.append(f"bin_sizes[{i}]: model={float(x)} impl={float(y)}")
        return d[:6]

    def oracle(self, case, io):
        o = io["outs"]
        if case.get("kind") == "derived":
            fails = [f"read_failed: {e}" for e in o["read_errors"]]
            todo = [(f"after op {i} ({st['op']})", st["obs"]) for i, st in enumerate(o["steps"]) if "obs" in st] + [("result", o)]
            for label, ob in todo:
                if "error" in ob:
                    fails.append(f"unreadable: [{label}; {ob['class']}] {ob['error']}")
                    continue
                if ob.get("empty"):
                    continue
                axes = [[(fl(l), fl(r)) for l, r in ax] for ax in ob["bins"]]
                shape = [len(ax) for ax in axes]
                if ob["freq_shape"] != shape:
                    fails.append(f"size_shape: [{label}; {ob['class']}] frequencies have shape {ob['freq_shape']}, the bins {shape}")
                    continue
                for f in self.clauses(ob["class"], axes, shape, ob, is_full(ob["class"], axes), approx=True):
                    sig, _, rest = f.partition(":")
                    fails.append(f"{sig}: [{label}; {ob['class']} {'x'.join(map(str, shape))}]{rest}")
            return fails[:6]
        axes = [[(float(Fraction(l)), float(Fraction(r))) for l, r in ax] for ax in case["axes"]]
        return self.clauses(case["class"], axes, case["shape"], o, case["full"])[:6]

    def clauses(self, cls, axes, shape, o, full, approx=False):
        """every clause of the property on one observed histogram of class `cls` whose bins are `axes`"""
        fails = []
        import itertools
        cells = list(itertools.product(*axes))
        klass = "HistogramND" if cls == "Histogram2D" else cls
        sizes = [measure_py(klass, c) for c in cells]
        bs = [fl(x) for x in o["bin_sizes"]]
        tol = lambda a, b: abs(a - b) <= 1e-11 * max(abs(a), abs(b), 1e-6)
        if o["shape_sizes"] != shape:
            fails.append(f"size_shape: bin_sizes has shape {o['shape_sizes']}, the histogram {shape}")
        elif not all(tol(a, b) for a, b in zip(bs, sizes)):
            k = next(i for i, (a, b) in enumerate(zip(bs, sizes)) if not tol(a, b))
            fails.append(f"bin_size: {cls} cell {cells[k]} has bin_size {bs[k]}, its measure is {sizes[k]}")
        f = [fl(x) for x in o["freq"]]
        for i, (dn, s, fr) in enumerate(zip(o["densities"], bs, f)):
            if s != 0 and dn is not None and dn not in ("inf", "-inf") and math.isfinite(fr):
                if not tol(fl(dn) * s, fr) and abs(fl(dn) * s - fr) > 1e-9:
                    fails.append(f"density: densities*bin_sizes = {fl(dn) * s} but frequency is {fr} (cell {i})")
                    break
        key = "total_width" if len(axes) == 1 else "total_size"
        # total_width is the summed *width* of a 1-D axis (also for the radial class); total_size the summed measure
        covered = sum(r - l for l, r in axes[0]) if len(axes) == 1 else sum(sizes)
        if not tol(fl(o[key]), covered) and abs(fl(o[key]) - covered) > 1e-9:
            fails.append(f"total_measure: {key} = {fl(o[key])}, the covered region measures {covered}")
        total_measure = sum(bs)
        if full and cls in KIND:
            R = axes[0][-1][1]
            exp = {"PolarHistogram": math.pi * R * R, "RadialHistogram": math.pi * R * R,
                   "SphericalSurfaceHistogram": 4 * math.pi, "SphericalHistogram": 4 / 3 * math.pi * R ** 3}.get(cls)
            if exp is not None and axes[0][0][0] == 0.0 and not tol(total_measure, exp) and abs(total_measure - exp) > 1e-9:
                fails.append(f"full_range_total: the bin measures sum to {total_measure}, expected {exp}")
        # additivity: merging runs of two adjacent bins along an axis adds their measures (and is refused across a gap)
        for mg in o.get("merged", []):
            a = mg["axis"]
            ax = axes[a]
            runs = [ax[i:i + 2] for i in range(0, len(ax), 2)]
            gap = any(len(r) == 2 and r[0][1] != r[1][0] for r in runs)
            if mg["ret"] != "ok":
                if not gap:
                    fails.append(f"merge_refused: merging adjacent bins of axis {a} was refused: {mg['why']}")
                continue
            if gap:
                fails.append(f"merged_across_gap: axis {a}: a run of two bins that do not touch was merged into one bin "
                             f"(its measure is no longer the sum of the parts)")
                continue
            want_bins = [(r[0][0], r[-1][1]) for r in runs]
            got_bins = [(fl(l), fl(r)) for l, r in mg["bins"]]
            if got_bins != want_bins:
                fails.append(f"merged_edges: axis {a}: merged bins {got_bins}, expected {want_bins}")
                continue
            # measure of every merged cell = sum of the measures of its parts
            shp = list(shape); arr = np.array(bs).reshape(shp)
            idx = [slice(None)] * len(shp)
            parts = []
            for i in range(0, shp[a], 2):
                idx[a] = slice(i, i + 2)
                parts.append(arr[tuple(idx)].sum(axis=a))
            want = np.stack(parts, axis=a).ravel()
            got = np.array([fl(x) for x in mg["sizes"]])
            if got.shape != want.shape or not all(tol(x, y) or abs(x - y) <= 1e-9 for x, y in zip(got, want)):
                fails.append(f"merge_additive: axis {a}: measures of the merged bins {got.tolist()[:6]} are not the sums of their parts {want.tolist()[:6]}")
            if len(axes) > 1 or cls != "RadialHistogram":
                tm = fl(mg["total_measure"])
                tm0 = fl(o[key])
                if not tol(tm, tm0) and abs(tm - tm0) > 1e-9:
                    fails.append(f"merge_total_measure: axis {a}: {key} changed from {tm0} to {tm} by merging")
        # edges / centres / widths
        L = [o["left"]] if len(axes) == 1 else o["left"]
        Rr = [o["right"]] if len(axes) == 1 else o["right"]
        C = [o["centers"]] if len(axes) == 1 else o["centers"]
        W = [o["widths"]] if len(axes) == 1 else o["widths"]
        for a, ax in enumerate(axes):
            if [fl(x) for x in L[a]] != [l for l, _ in ax] or [fl(x) for x in Rr[a]] != [r for _, r in ax]:
                fails.append(f"edges: left/right edges of axis {a} differ from bins")
            if len(C[a]) != len(ax) or len(W[a]) != len(ax):
                fails.append(f"centre_width: axis {a} has {len(ax)} bins, {len(C[a])} centres and {len(W[a])} widths")
                continue
            for (l, r), c, w in zip(ax, C[a], W[a]):
                if fl(c) != (l + r) / 2 or fl(w) != r - l:
                    fails.append(f"centre_width: axis {a} bin [{l},{r}] centre {fl(c)} width {fl(w)}")
                    break
        if len(axes) == 1:
            if all(math.isfinite(x) for x in f):
                run, cum, mag = Fraction(0), [], Fraction(0)
                for x in o["freq"]:
                    run += Fraction(x); cum.append(run); mag += abs(Fraction(x))
                if not approx or "int" in o.get("dtype", ""):
                    got = [None if x is None else Fraction(x) for x in o["cumulative"]]
                    if got != cum:
                        fails.append(f"cumulative: cumulative_frequencies = {o['cumulative']}, running sums are {[str(c) for c in cum]}")
                    elif cum and cum[-1] != Fraction(o["total"]):
                        fails.append("cumulative_total: the running sum does not end at total")
                else:
                    # contents that went through float division: the running sum is compared up to the rounding of n additions
                    eps = 2.0 ** -23 if "float32" in o.get("dtype", "") else 2.0 ** -52
                    bound = 8 * len(cum) * eps * float(mag) + 1e-300
                    got = [fl(x) for x in o["cumulative"]]
                    if len(got) != len(cum) or any(not abs(g - float(c)) <= bound for g, c in zip(got, cum)):
                        fails.append(f"cumulative: cumulative_frequencies = {got}, running sums are {[float(c) for c in cum]}")
                    elif cum and not abs(float(cum[-1]) - fl(o["total"])) <= bound:
                        fails.append("cumulative_total: the running sum does not end at total")
            if fl(o["min_edge"]) != axes[0][0][0] or fl(o["max_edge"]) != axes[0][-1][1]:
                fails.append("outer_edges: min_edge / max_edge differ from bins")
        else:
            if any(s != shape for s in o["mesh_centers_shape"]):
                fails.append(f"mesh_shape: mesh of centres has shapes {o['mesh_centers_shape']}, expected {shape}")
            if [fl(x) for x in o["mesh_centers00"]] != [(ax[0][0] + ax[0][1]) / 2 for ax in axes]:
                fails.append("mesh_centres: first mesh entry is not the first bin centre of every axis")
            if [fl(x) for x in o["mesh_widths_last"]] != [ax[-1][1] - ax[-1][0] for ax in axes]:
                fails.append("mesh_widths: last mesh entry is not the last bin width of every axis")
        return fails

    def nontrivial(self, case, io):
        if case.get("kind") == "derived":
            o = io["outs"]
            return any(st["ret"] == "ok" for st in o["steps"]) and len(o.get("freq", [])) > 1 and any(v != "0" for v in o["freq"])
        return len(case["freq"]) > 1 and any(v != "0" for v in case["freq"])

    def tags(self, case, io):
        t = list(case["tags"]) + ["dtype:" + case["dtype"], "full" if case["full"] else "partial"]
        if case.get("kind") == "derived":
            o = io["outs"]
            t.append("reads:warm" if case["reads"] else "reads:none")
            t += ["op:" + st["op"] + ("" if st["ret"] == "ok" else ":" + st["ret"]) for st in o["steps"]]
            t.append("result:" + o["class"])
        return t

    def matches_known(self, finding, case):
        return True

    def neighbours(self, case):
        return []

    def shrink_candidates(self, case):
        if case.get("kind") != "derived":
            return
        ops = case["ops"]
        for i in range(len(ops)):                       # fewer derivations
            yield dict(case, ops=ops[:i] + ops[i + 1:])
        for i in range(len(case["reads"])):             # fewer reads on the source
            yield dict(case, reads=case["reads"][:i] + case["reads"][i + 1:])
        for i, op in enumerate(ops):                    # no reads / observations in between
            if op.get("reads") or op.get("observe"):
                yield dict(case, ops=ops[:i] + [dict(op, reads=[], observe=False)] + ops[i + 1:])
        for i, op in enumerate(ops):
            if op["op"] == "fill" and len(op["values"]) > 1:
                yield dict(case, ops=ops[:i] + [dict(op, values=op["values"][:-1])] + ops[i + 1:])


PROP = C16()

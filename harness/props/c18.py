"""C18 — histograms stay well-formed; failed operations change nothing (1-D histories; ND in c18nd)."""
from __future__ import annotations

import copy
from fractions import Fraction

import numpy as np

from .. import history1
from .base1 import Hist1Prop


def content_map(snap):
    """content / squared error per bin interval, zero entries dropped"""
    def num(x):
        return x if x in ("inf", "-inf", None) else Fraction(x)     # overflow of a narrow float type stays a token
    return {tuple(b): (num(f), num(e)) for b, f, e in zip(snap["bins"], snap["freq"], snap["err2"])
            if num(f) != 0 or num(e) != 0}


def wellformed(snap):
    out = []
    if any(x in ("inf", "-inf", None) for x in snap["freq"] + snap["err2"]):
        # overflow of a narrow float type (float16): only the structural facts can be checked
        if snap["_freq_dtype"] != snap["dtype"] or snap["_err2_dtype"] != snap["dtype"]:
            out.append(f"dtype_mismatch: dtype {snap['dtype']} over {snap['_freq_dtype']}/{snap['_err2_dtype']} arrays")
        if any(x in ("-inf", None) for x in snap["err2"]):
            out.append(f"negative_err2: {snap['err2']}")
        return out
    if not snap["_shape_ok"]:
        out.append("shape: frequencies / errors2 / bins shapes do not match")
    if len(snap["freq"]) != len(snap["bins"]) or len(snap["err2"]) != len(snap["bins"]):
        out.append("shape: frequencies / errors2 / bins lengths do not match")
    if any(Fraction(x) < 0 for x in snap["err2"]):
        out.append(f"negative_err2: {snap['err2']}")
    if any(Fraction(x) < 0 for x in snap["freq"]):
        out.append(f"negative_content: {snap['freq']}")
    bins = [(Fraction(l), Fraction(r)) for l, r in snap["bins"]]
    if any(l >= r for l, r in bins) or any(bins[i][1] > bins[i + 1][0] for i in range(len(bins) - 1)):
        out.append("bins_not_rising")
    if snap["_freq_dtype"] != snap["dtype"] or snap["_err2_dtype"] != snap["dtype"]:
        out.append(f"dtype_mismatch: dtype {snap['dtype']} over {snap['_freq_dtype']}/{snap['_err2_dtype']} arrays")
    return out


class C18(Hist1Prop):
    ID = "C18"
    N_QUICK = 400
    N_THOROUGH = 12000
    RULE = ("random histories (2-10 ops) of public 1-D operations on static / gapped / adaptive histograms, int and float, "
            "with invalid calls (incompatible or non-histogram operand, wrong weight shape, negative factor, zero divisor, "
            "refused dtype, subtracting too much, bad index, non-integral merge amount) injected at random positions; after "
            "every step every live histogram is checked for well-formedness, after every refused step all are compared with "
            "their snapshot before. non-trivial = at least one refused and one successful mutating step; distinct = op-list hash")
    FIELDS = {"bins", "freq", "err2", "under", "over", "inner", "total", "dtype", "keep"}

    def gen_case(self, rng, k, tier):
        if k % 5 == 3:
            from . import nd_parts
            return nd_parts.c18_gen(rng)
        # a quarter of the histories start from contents / squared errors near the limits of the narrow types, so that
        # refused (and wrongly accepted) dtype changes are part of the histories too
        focus = rng.random() < 0.25
        ops, tags = history1.history(rng, nops=(2, 9), invalid_share=0.35, dtype_focus=focus)
        if focus:
            tags = tags + ["dtype_focus"]
            if rng.random() < 0.7:
                # end with a narrowing request: it must be refused whenever a content *or a squared error* is out of range
                rounded = any(o["op"] == "normalize" for o in ops)     # see history1: no integer targets after a normalisation
                ops = ops + [{"op": "set_dtype", "h": rng.choice([0, 1]),
                              "dtype": "float16" if rounded else rng.choice(["int16", "int16", "int32", "float16"]),
                              "maybe_refused": True, "via_property": rng.random() < 0.5}]
        tol = any(o["op"] in ("normalize",) for o in ops)
        return {"kind": "hist1", "ops": ops, "tags": tags, "tolerance": tol or focus}   # narrow types round their input

    def fields_for(self, case):
        # numpy sums a narrow float / int array in its own type: the total of values near the type's limit is rounded
        # (or inf); contents and errors themselves are still compared exactly
        return self.FIELDS - {"total"} if "dtype_focus" in case.get("tags", []) else self.FIELDS

    def shrink_candidates(self, case):
        ops = case["ops"]
        for k in range(len(ops) - 1, 2, -1):
            c = copy.deepcopy(case)
            del c["ops"][k]
            yield c

    def run_impl(self, case):
        if case.get("kind") == "histn":
            from .. import implnd
            outs, log = implnd.run(case)
            return {"outs": outs, "log": log}
        from .. import impl1
        # merge_frac is not in the generic language
        s = impl1.Store()
        outs, log = [], []
        for op in case["ops"]:
            if op["op"] == "invalid" and op["what"] == "merge_frac":
                try:
                    s.get(op["h"]).merge_bins(2.5, inplace=True)
                    ret = "accepted"
                except Exception as e:
                    log.append(f"{type(e).__name__}: {e}"[:200])
                    ret = "REFUSED"
            else:
                ret = impl1.step(s, op, log)
            outs.append({"ret": ret, "regs": [None if h is None else impl1.snap1(h) for h in s.regs]})
        return {"outs": outs, "log": log}

    def oracle(self, case, io):
        if case.get("kind") == "histn":
            from . import nd_parts
            return nd_parts.c18_oracle(case, io)
        outs, ops = io["outs"], case["ops"]
        fails = []
        for k, op in enumerate(ops):
            regs = outs[k]["regs"]
            for i, r in enumerate(regs):
                if r is None:
                    continue
                for w in wellformed(r):
                    fails.append(f"illformed: after step {k} ({op['op']}) register {i}: {w}")
            ret = outs[k]["ret"]
            if op.get("expect_refused") and ret != "REFUSED":
                fails.append(f"accepted_invalid: step {k} {op['op']} ({op.get('what', '')}) should have been refused")
            if op["op"] == "invalid" and ret != "REFUSED":
                fails.append(f"accepted_invalid: step {k} {op['what']} accepted")
            if ret == "REFUSED" and k > 0:
                before = outs[k - 1]["regs"]
                for i, (x, y) in enumerate(zip(before, regs)):
                    if x is None or y is None:
                        continue
                    if content_map(x) != content_map(y):
                        fails.append(f"not_atomic: refused step {k} ({op['op']} {op.get('what', '')}) changed contents of register {i}: {x['freq']} -> {y['freq']}")
                    for m in ("under", "over", "inner"):
                        if x[m] != y[m]:
                            fails.append(f"not_atomic: refused step {k} ({op['op']}) changed {m} of register {i}: {x[m]} -> {y[m]}")
                    if x["dtype"] != y["dtype"] and not np.can_cast(np.dtype(x["dtype"]), np.dtype(y["dtype"])):
                        fails.append(f"not_atomic: refused step {k} changed dtype {x['dtype']} -> {y['dtype']} (not a lossless promotion)")
            if ret == "REFUSED" and not (op.get("expect_refused") or op.get("maybe_refused") or op["op"] == "invalid"):
                # a valid call was refused: allowed only for the documented reasons
                if not self.refusal_ok(op, outs, k):
                    fails.append(f"refused_valid: step {k} {op} refused: " + "; ".join(io["log"][-2:]))
            if len(fails) > 6:
                break
        return fails[:6]

    def refusal_ok(self, op, outs, k):
        before = outs[k - 1]["regs"] if k else []
        def reg(i):
            return before[i] if i < len(before) else None
        if any(reg(op.get(x)) is None for x in ("h", "a", "b", "o") if x in op):
            return True   # an operand does not exist because its creation was refused
        if op["op"] in ("iadd", "add"):
            a, b = reg(op.get("h", op.get("a"))), reg(op.get("o", op.get("b")))
            if a["bins"] != b["bins"]:
                # different bins: fine unless both adaptive on the same grid with nothing missed
                return True
        if op["op"] == "construct":
            return True
        if op["op"] in ("fill", "fill_n"):
            h = reg(op["h"])
            return h is not None and len(h["bins"]) == 0
        return False

    def nontrivial(self, case, io):
        rets = [o["ret"] for o in io["outs"][3:]]
        return "REFUSED" in rets and any(r != "REFUSED" for r in rets)


PROP = C18()

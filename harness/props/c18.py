"""C18 — histograms stay well-formed; failed operations change nothing (1-D histories; ND in c18nd)."""
from __future__ import annotations

import copy
from fractions import Fraction

import numpy as np

from .. import gen1, history1
from ..core import rs
from .base1 import Hist1Prop


def content_map(snap):
    """content / squared error per bin interval, zero entries dropped"""
    def num(x):
        return x if x in ("inf", "-inf", None) else Fraction(x)     # overflow of a narrow float type stays a token
    return {tuple(b): (num(f), num(e)) for b, f, e in zip(snap["bins"], snap["freq"], snap["err2"])
            if num(f) != 0 or num(e) != 0}


def wellformed(snap):
    out = []
    if any(x in ("inf", "-inf", None) for x in snap["freq"] + snap["err2"]):
        # overflow of a narrow float type (float16): only the structural facts can be checked
        if snap["_freq_dtype"] != snap["dtype"] or snap["_err2_dtype"] != snap["dtype"]:
            out.append(f"dtype_mismatch: dtype {snap['dtype']} over {snap['_freq_dtype']}/{snap['_err2_dtype']} arrays")
        if any(x in ("-inf", None) for x in snap["err2"]):
            out.append(f"negative_err2: {snap['err2']}")
        return out
    if not snap["_shape_ok"]:
        out.append("shape: frequencies / errors2 / bins shapes do not match")
    if len(snap["freq"]) != len(snap["bins"]) or len(snap["err2"]) != len(snap["bins"]):
        out.append("shape: frequencies / errors2 / bins lengths do not match")
    if any(Fraction(x) < 0 for x in snap["err2"]):
        out.append(f"negative_err2: {snap['err2']}")
    if any(Fraction(x) < 0 for x in snap["freq"]):
        out.append(f"negative_content: {snap['freq']}")
    bins = [(Fraction(l), Fraction(r)) for l, r in snap["bins"]]
    if any(l >= r for l, r in bins) or any(bins[i][1] > bins[i + 1][0] for i in range(len(bins) - 1)):
        out.append("bins_not_rising")
    if snap["_freq_dtype"] != snap["dtype"] or snap["_err2_dtype"] != snap["dtype"]:
        out.append(f"dtype_mismatch: dtype {snap['dtype']} over {snap['_freq_dtype']}/{snap['_err2_dtype']} arrays")
    return out

# ------------------------------------------------------------------------------------------------------------------------
# stream:nonfinite -- histories over histograms in which some content / squared error / missed count is NaN or +-inf
#
# Such histograms are reached legitimately: an infinite factor on a histogram with an empty bin (0 * inf = NaN),
# HistogramCollection.normalize_bins() with a bin empty in all members (0 / 0), NaN / inf handed to the constructor or to the
# `frequencies` / `errors2` setters, float weights whose sum (or sum of squares) overflows.  The property still demands, with
# free arithmetics off: no content and no squared error is negative afterwards (a NaN entry is neither negative nor
# non-negative: only the finite entries and -inf are judged); an operation that would make a negative one -- a negative
# factor / divisor on a histogram with a positive content, subtracting more than is there in some (finite) bin, assigning or
# constructing with a negative entry -- is refused WHATEVER ELSE the arrays contain; a refused operation leaves every bin as
# it was (NaN compares equal to NaN in the snapshots: core.nrs encodes NaN as None, +-inf as "inf" / "-inf").
# The Lean model's contents are rationals: these cases are oracle-only (model_case gives None).
NONFIN = ("inf", "-inf", None)
NF_SHARE = 10                  # every NF_SHARE-th generated case (k % NF_SHARE == 7) belongs to this stream


def tokf(t) -> float:
    """snapshot token -> double (None = NaN)"""
    if t is None:
        return float("nan")
    if t in ("inf", "-inf"):
        return float(t)
    f = Fraction(t)
    x = f.numerator / f.denominator
    assert Fraction(x) == f, f"{t} is not a double"
    return x


def is_neg(t) -> bool:
    return t == "-inf" or (t not in NONFIN and Fraction(t) < 0)


def is_pos(t) -> bool:
    return t == "inf" or (t not in NONFIN and Fraction(t) > 0)


def has_nonfinite(snap) -> bool:
    return snap is not None and any(x in NONFIN for x in snap["freq"] + snap["err2"])


def _prod(shape):
    n = 1
    for x in shape:
        n *= x
    return n


def nf_wellformed(snap):
    """the well-formedness facts of a 1-D / N-d snapshot; non-finite entries allowed (NaN is not judged, -inf is negative)"""
    out = []
    nd = "shape" in snap
    axes = snap["bins"] if nd else [snap["bins"]]
    n = _prod(snap["shape"]) if nd else len(snap["bins"])
    if not snap["_shape_ok"]:
        out.append("shape: frequencies / errors2 / bins shapes do not match")
    if len(snap["freq"]) != n or len(snap["err2"]) != n or (nd and snap["shape"] != [len(b) for b in axes]):
        out.append("shape: frequencies / errors2 / bins lengths do not match")
    if any(is_neg(x) for x in snap["err2"]):
        out.append(f"negative_err2: {snap['err2']}")
    if any(is_neg(x) for x in snap["freq"]):
        out.append(f"negative_content: {snap['freq']}")
    for a, bb in enumerate(axes):
        bins = [(Fraction(l), Fraction(r)) for l, r in bb]
        if any(l >= r for l, r in bins) or any(bins[i][1] > bins[i + 1][0] for i in range(len(bins) - 1)):
            out.append(f"bins_not_rising: axis {a}")
    if snap["_freq_dtype"] != snap["dtype"] or snap["_err2_dtype"] != snap["dtype"]:
        out.append(f"dtype_mismatch: dtype {snap['dtype']} over {snap['_freq_dtype']}/{snap['_err2_dtype']} arrays")
    return out


# ---- running the ops: the generic 1-D / N-d op languages plus four ops that carry non-finite tokens
def _carrier(t, k):
    x = tokf(t)
    if k == "pyint":
        return int(Fraction(t))
    if k == "pyfloat":
        return float(x)
    return np.dtype(k).type(x)


def nf_step(kind, s, op, log):
    from .. import impl1, implnd
    name = op["op"]
    if not name.startswith("nf_"):
        return (implnd.step if kind == "histn" else impl1.step)(s, op, log)

    def reg(i):
        return s.regs[i] if 0 <= i < len(s.regs) else None

    # operands and arrays are prepared outside the `try`: only the library's own refusals are recorded as REFUSED
    if name == "nf_of_arrays":
        dt = np.dtype(op["dtype"])
        f = np.array([tokf(x) for x in op["freq"]], dtype=float).astype(dt)
        e = None if op.get("err2") is None else np.array([tokf(x) for x in op["err2"]], dtype=float).astype(dt)
        if kind == "histn":
            from physt.histogram_nd import Histogram2D, HistogramND
            shape = tuple(len(b["bins"]) for b in op["axes"])
            f = f.reshape(shape)
            e = None if e is None else e.reshape(shape)

            def call():
                axes = [impl1.mk_binning(b) for b in op["axes"]]
                klass = Histogram2D if len(axes) == 2 else HistogramND
                s.set(op["out"], klass(axes, f, errors2=e, missed=tokf(op.get("missed", "0")), keep_missed=op.get("keep", True),
                                       axis_names=[f"ax{i}" for i in range(len(axes))]))
        else:
            from physt.histogram1d import Histogram1D

            def call():
                s.set(op["out"], Histogram1D(impl1.mk_binning(op["binning"]), f, e, keep_missed=op.get("keep", True),
                                             underflow=tokf(op.get("under", "0")), overflow=tokf(op.get("over", "0")),
                                             inner_missed=tokf(op.get("inner", "0"))))
    else:
        x = reg(op["h"])
        if x is None:
            log.append(f"{name}: register {op['h']} does not exist")
            return impl1.REFUSED
        if name == "nf_scale":
            c = _carrier(op["c"], op["k"])
            how = op["how"]

            def call():
                if how == "imul":
                    y = x
                    y *= c
                    s.set(op["h"], y)
                elif how == "idiv":
                    y = x
                    y /= c
                    s.set(op["h"], y)
                elif how == "mul":
                    s.set(op["out"], x * c)
                elif how == "rmul":
                    s.set(op["out"], c * x)
                elif how == "div":
                    s.set(op["out"], x / c)
                else:
                    raise KeyError(how)
        elif name == "nf_set":
            vals = np.array([tokf(t) for t in op["vals"]], dtype=float).astype(np.dtype(op.get("k", "float64")))
            if op.get("shape"):
                vals = vals.reshape(op["shape"])
            if op.get("container") == "list":
                vals = vals.tolist()

            def call():
                if op["which"] == "freq":
                    x.frequencies = vals
                else:
                    x.errors2 = vals
        elif name == "nf_fill":
            v = [impl1.fl(t) for t in op["v"]] if isinstance(op["v"], list) else impl1.fl(op["v"])
            w = _carrier(op["w"], op.get("wk", "pyfloat"))

            def call():
                x.fill(v, w)
        else:
            raise KeyError(name)
    try:
        call()
        return "ok"
    except KeyError:
        raise
    except Exception as e:
        log.append(f"{name}: {type(e).__name__}: {e}"[:200])
        return impl1.REFUSED


def nf_run(case):
    from .. import impl1, implnd
    kind = case["kind"]
    snap = implnd.snapn if kind == "histn" else impl1.snap1
    s = impl1.Store()
    outs, log = [], []
    for op in case["ops"]:
        ret = nf_step(kind, s, op, log)
        outs.append({"ret": ret, "regs": [None if h is None else snap(h) for h in s.regs]})
    return {"outs": outs, "log": log}


# ---- generation
NF_POS = ["2", "4", "1/2", "1/4"]                         # powers of two: exact on every finite double
NF_NEGF = ["-1", "-5/2", "-2", "-1/2", "-inf"]           # factors that must be refused on a histogram with a positive content
NF_NEGD = ["-2", "-1/2", "-4"]


def _kind_of(c, rng):
    if c not in NONFIN and Fraction(c).denominator == 1 and rng.random() < 0.5:
        return "pyint"
    return rng.choice(["pyfloat", "pyfloat", "float64", "float32"])


class _NF:
    """the frame of one history: bins (1-D static, possibly gapped; or 2 / 3 static axes), register 0 = base (finite, at least
    one empty and one positive bin), 1 = sibling (finite, empty where the base is empty at position z), 2 = 'bigger' (finite,
    more than the base in every bin)"""

    def __init__(self, rng, nd=None, shape=None):
        self.rng = rng
        self.nd = (rng.random() < 0.35) if nd is None else nd
        if self.nd:
            self.shape = shape or [rng.randint(2, 3) for _ in range(rng.choice([2, 2, 3]))]
            self.axes, self.mids = [], []
            for nb in self.shape:
                e = [float(rng.choice([0, 1, -2]))]
                for _ in range(nb):
                    e.append(e[-1] + rng.choice([1.0, 0.5, 2.0]))
                pairs = [[e[i], e[i + 1]] for i in range(nb)]
                self.axes.append(gen1.binning_json(pairs, ire=True, form="static_obj"))
                self.mids.append([(l + r) / 2 for l, r in pairs])
        else:
            nb = shape[0] if shape else rng.randint(2, 5)
            self.shape = [nb]
            e = [rng.randint(-4, 4) / 2]
            for _ in range(nb):
                e.append(e[-1] + rng.choice([0.5, 1.0, 2.0]))
            pairs = [[e[i], e[i + 1]] for i in range(nb)]
            if nb >= 3 and rng.random() < 0.2:
                pairs[1][0] += 0.25                          # a gap
            self.binning = gen1.binning_json(pairs, form=rng.choice(["pairs", "static_obj", "edges"]) if shape is None else "static_obj")
            self.mids = [[(l + r) / 2 for l, r in pairs]]
        self.size = _prod(self.shape)
        self.z = rng.randrange(self.size)                   # empty in the base and in the sibling
        p = rng.choice([i for i in range(self.size) if i != self.z])
        pool = [0, 0, 1, 2, 3.5, 0.25, 7]
        self.base = [rng.choice(pool) for _ in range(self.size)]
        self.base[self.z], self.base[p] = 0, rng.choice(pool[2:])
        self.sib = [rng.choice(pool) for _ in range(self.size)]
        self.sib[self.z] = 0
        self.big = [b + rng.choice([1, 5, 50.5]) for b in self.base]
        self.ops = []
        self.nfree = 3

    def where(self):
        return {"axes": self.axes} if self.nd else {"binning": self.binning}

    def new(self):
        self.nfree += 1
        return self.nfree - 1

    def of_arrays(self, out, freq, err2=None, dtype="float64"):
        toks = lambda a: None if a is None else [x if x in NONFIN or isinstance(x, str) else rs(x) for x in a]
        self.ops.append({"op": "nf_of_arrays", "out": out, **self.where(), "freq": toks(freq), "err2": toks(err2), "dtype": dtype,
                         "keep": self.rng.random() < 0.85})

    def setup(self, base_dtype="float64"):
        rng = self.rng
        e = None if rng.random() < 0.5 else [b * rng.choice([1, 2, 0.5]) for b in self.base]
        if base_dtype == "int64":
            self.base = [int(b) for b in self.base]
            if all(b == 0 for b in self.base):
                self.base[(self.z + 1) % self.size] = 3
            self.big = [b + 5 for b in self.base]
            e = None
        self.of_arrays(0, self.base, e, base_dtype)
        self.of_arrays(1, self.sib, None, "float64")
        self.of_arrays(2, self.big, None, "float64")

    def cell_point(self, pos):
        """a point inside cell number `pos` (row-major)"""
        idx = []
        for n in reversed(self.shape):
            idx.append(pos % n)
            pos //= n
        idx.reverse()
        return [self.mids[a][i] for a, i in enumerate(idx)]

    # -- the ways a non-finite content comes about; each returns the register holding it
    def source(self, how):
        rng = self.rng
        if how == "normalize_bins" and self.nd:
            how = "inf_factor"
        if how == "inf_factor":
            form = rng.choice(["mul", "rmul", "imul"])
            op = {"op": "nf_scale", "h": 0, "how": form, "c": "inf", "k": rng.choice(["pyfloat", "float64", "float32"])}
            if form != "imul":
                op["out"] = self.new()
            self.ops.append(op)
            return op.get("out", 0)
        if how == "normalize_bins":
            a, b = self.new(), self.new()
            self.ops.append({"op": "normalize_bins", "hs": [0, 1], "outs": [a, b]})
            return rng.choice([a, b])
        if how == "ctor":
            f = [x for x in self.base]
            k = rng.randrange(self.size)
            f[k] = rng.choice([None, None, "inf"])
            if rng.random() < 0.4:
                f[rng.randrange(self.size)] = rng.choice([None, "inf"])
            e = None
            if rng.random() < 0.5:
                e = [x for x in self.base]
                e[rng.randrange(self.size)] = rng.choice([None, None, "inf"])
            if all(x is not None for x in f + (e or [])) and rng.random() < 0.8:
                f[k] = None
            t = self.new()
            self.of_arrays(t, f, e, rng.choice(["float64", "float64", "float32"]))
            return t
        if how == "setter":
            which = rng.choice(["freq", "freq", "err2"])
            vals = [rs(x) for x in self.base]
            vals[rng.randrange(self.size)] = None
            if rng.random() < 0.4:
                vals[rng.randrange(self.size)] = rng.choice([None, "inf"])
            self.ops.append(self.set_op(0, which, vals))
            return 0
        if how == "huge_weights":
            w = rng.choice([1e308, 1e308, 1e200])            # the sum (1e308) or only the sum of squares (1e200) overflows
            cells = [rng.randrange(self.size)] * 2 + [rng.randrange(self.size) for _ in range(rng.randint(0, 2))]
            pts = [self.cell_point(c) for c in cells]
            ws = [rs(w), rs(w)] + [rs(rng.choice([1.0, 2.5])) for _ in cells[2:]]
            t = self.new()
            if self.nd:
                rows = [[rs(v) for v in p] for p in pts]
                if rng.random() < 0.5:
                    self.ops.append({"op": "construct", "out": t, "axes": self.axes, "rows": rows, "weights": ws, "wkind": "float64"})
                else:
                    self.ops.append({"op": "empty", "out": t, "axes": self.axes})
                    self.ops.append({"op": "fill_n", "h": t, "rows": rows, "ws": ws, "wkind": "float64"})
            else:
                vs = [rs(p[0]) for p in pts]
                if rng.random() < 0.5:
                    self.ops.append({"op": "construct", "out": t, "binning": self.binning, "data": vs, "weights": ws, "wkind": "float64",
                                     "dtype": None, "keep": True})
                else:
                    self.ops.append({"op": "empty", "out": t, "binning": self.binning, "dtype": None, "keep": True})
                    self.ops.append({"op": "fill_n", "h": t, "vs": vs, "ws": ws, "wkind": "float64"})
            if rng.random() < 0.5:
                # ... and an undefined content beside the infinite one: inf - inf in that bin
                self.ops.append({"op": "isub", "h": t, "o": t, "maybe_refused": True})
            return t
        if how == "inf_weight":
            p = self.cell_point(rng.randrange(self.size))
            self.ops.append({"op": "nf_fill", "h": 0, "v": [rs(v) for v in p] if self.nd else rs(p[0]), "w": "inf",
                             "wk": rng.choice(["pyfloat", "float64"])})
            if rng.random() < 0.6:
                self.ops.append({"op": "nf_scale", "h": 0, "how": "imul", "c": "0", "k": "pyint"})      # inf * 0 = NaN
                self.ops.append({"op": "iadd", "h": 0, "o": 2})
            return 0
        if how == "inf_minus_inf":
            a = self.new()
            self.ops.append({"op": "nf_scale", "h": 0, "how": "mul", "c": "inf", "k": "pyfloat", "out": a})
            b = self.new()
            self.ops.append({"op": "sub", "a": a, "b": a, "out": b, "maybe_refused": True})
            self.ops.append({"op": "iadd", "h": b, "o": 2})       # NaN where the base is not empty, finite elsewhere
            return b
        raise KeyError(how)

    def set_op(self, h, which, vals, k="float64"):
        op = {"op": "nf_set", "h": h, "which": which, "vals": vals, "k": k,
              "container": self.rng.choice(["array", "array", "list"])}
        if self.nd:
            op["shape"] = self.shape
        return op

    def mixed_vals(self, negative, beside=None):
        """an array to assign: small non-negative numbers, NaN / inf entries (`beside`: "nan", "inf", "both", "none"; random
        by default), and -- if `negative` -- at least one negative entry"""
        rng = self.rng
        beside = beside or rng.choice(["nan", "nan", "nan", "inf", "both", "none"])
        vals = [rs(rng.choice([0, 1, 2, 0.5, 3.25])) for _ in range(self.size)]
        order = list(range(self.size))
        rng.shuffle(order)
        if negative:
            vals[order[0]] = rng.choice(["-1", "-1", "-1/4", "-7", "-inf"])
        rest = order[1:]
        if beside in ("nan", "both") and rest:
            vals[rest[0]] = None
        if beside == "inf" and rest:
            vals[rest[0]] = "inf"
        if beside == "both" and len(rest) > 1:
            vals[rest[1]] = "inf"
        if beside == "nan" and len(rest) > 1 and rng.random() < 0.3:
            vals[rest[1]] = None
        return vals

    # -- follow-up operations
    def follow(self, kind, t):
        rng = self.rng
        ops = self.ops
        if kind == "neg_factor":
            c = rng.choice(NF_NEGF)
            op = {"op": "nf_scale", "h": t, "how": rng.choice(["mul", "imul", "rmul"]), "c": c, "k": _kind_of(c, rng)}
        elif kind == "neg_divisor":
            c = rng.choice(NF_NEGD)
            op = {"op": "nf_scale", "h": t, "how": rng.choice(["div", "idiv"]), "c": c, "k": _kind_of(c, rng)}
        elif kind == "zero_divisor":
            op = {"op": "nf_scale", "h": t, "how": rng.choice(["div", "idiv"]), "c": "0", "k": rng.choice(["pyint", "pyfloat"])}
        elif kind == "pos_factor":
            c = rng.choice(NF_POS)
            op = {"op": "nf_scale", "h": t, "how": rng.choice(["mul", "imul", "rmul", "div", "idiv"]), "c": c, "k": _kind_of(c, rng)}
        elif kind == "sub_bigger":
            op = {"op": "isub", "h": t, "o": 2, "maybe_refused": True} if rng.random() < 0.6 else \
                 {"op": "sub", "a": t, "b": 2, "maybe_refused": True}
        elif kind == "sub_sibling":
            op = {"op": "isub", "h": t, "o": 1, "maybe_refused": True}
        elif kind == "set_negative":
            op = self.set_op(t, rng.choice(["freq", "err2"]), self.mixed_vals(True), rng.choice(["float64", "float64", "float32"]))
        elif kind == "set_valid":
            op = self.set_op(t, rng.choice(["freq", "err2"]), self.mixed_vals(False))
        elif kind in ("ctor_negative", "ctor_valid"):
            neg = kind == "ctor_negative"
            in_err = rng.random() < 0.5
            f = self.mixed_vals(neg and not in_err)
            e = self.mixed_vals(neg and in_err) if (in_err or rng.random() < 0.3) else None
            self.of_arrays(self.new(), f, e, rng.choice(["float64", "float64", "float32"]))
            return
        elif kind == "copy":
            op = {"op": "copy", "h": t, "with_freq": True}
        elif kind == "iadd":
            op = {"op": "iadd", "h": t, "o": rng.choice([1, 1, 2])}
        elif kind == "add":
            op = {"op": "add", "a": t, "b": 1}
        elif kind == "fill":
            p = self.cell_point(rng.randrange(self.size))
            wt, wk = rng.choice([(1, "pyint"), (2, "pyint"), (0.5, "pyfloat"), (1e200, "pyfloat")])   # 1e200: its square overflows
            op = {"op": "fill", "h": t, "v": [rs(v) for v in p] if self.nd else rs(p[0]), "w": rs(wt), "wk": wk, "default_w": False,
                  "maybe_refused": True}
        elif kind == "fill_n":
            pts = [self.cell_point(rng.randrange(self.size)) for _ in range(rng.choice([1, 3]))]
            op = ({"op": "fill_n", "h": t, "rows": [[rs(v) for v in p] for p in pts], "ws": None, "wkind": None} if self.nd else
                  {"op": "fill_n", "h": t, "vs": [rs(p[0]) for p in pts], "ws": None, "wkind": None})
        elif kind == "merge":
            op = {"op": "merge", "h": t, "amount": 2, "inplace": rng.random() < 0.5, "maybe_refused": True}
            if self.nd:
                op["axis"] = rng.randrange(len(self.shape))
        elif kind == "normalize":
            op = {"op": "normalize", "h": t, "percent": False, "inplace": rng.random() < 0.5, "maybe_refused": True}
        elif kind == "set_dtype":
            op = {"op": "set_dtype", "h": t, "dtype": rng.choice(["float32", "int64", "float16", "float64"]), "maybe_refused": True,
                  "via_property": rng.random() < 0.5}
        elif kind == "derive":
            if self.nd:
                op = rng.choice([{"op": "projection", "h": t, "axes": [rng.randrange(len(self.shape))]},
                                 {"op": "select", "h": t, "axis": rng.randrange(len(self.shape)), "index": 0}])
            else:
                op = {"op": "slice", "h": t, "start": rng.choice([None, 0, 1]), "stop": rng.choice([None, 2, -1])}
        else:
            raise KeyError(kind)
        if op["op"] in ("copy", "add", "sub", "projection", "select", "slice") or op.get("how") in ("mul", "rmul", "div") or \
                (op["op"] in ("merge", "normalize") and not op["inplace"]):
            op["out"] = self.new()
        ops.append(op)

    def case(self, tags):
        return {"kind": "histn" if self.nd else "hist1", "sub": "nonfinite", "ops": self.ops, "tolerance": True,
                "tags": ["stream:nonfinite", "stream:nonfinite:" + ("nd" if self.nd else "1d")] + tags}


NF_SOURCES = ["inf_factor", "inf_factor", "inf_factor", "normalize_bins", "normalize_bins", "ctor", "ctor", "setter", "setter",
              "huge_weights", "huge_weights", "inf_weight", "inf_minus_inf"]
NF_REFUSERS = ["neg_factor", "neg_factor", "neg_divisor", "sub_bigger", "sub_bigger", "set_negative", "set_negative", "ctor_negative",
               "zero_divisor"]
NF_OTHERS = ["pos_factor", "pos_factor", "pos_factor", "copy", "iadd", "add", "fill", "fill_n", "merge", "normalize", "set_dtype",
             "derive", "set_valid", "ctor_valid", "sub_sibling"]


def nf_gen(rng):
    fr = _NF(rng)
    fr.setup(rng.choice(["float64", "float64", "float64", "int64", "float32"]))
    src = rng.choice(NF_SOURCES)
    t = fr.source(src)
    tags = ["kind:nf_src:" + src]
    for _ in range(rng.randint(3, 7)):
        kind = rng.choice(NF_REFUSERS) if rng.random() < 0.5 else rng.choice(NF_OTHERS)
        tags.append("kind:nf_op:" + kind)
        fr.follow(kind, t if rng.random() < 0.8 else rng.choice([0, 1, t]))
    return fr.case(tags)


def nf_grid():
    """every way of getting an undefined content x every operation that must then be refused, 1-D and 2-D, each followed by
    an accepted scaling and a second refused call (the same on every seed)"""
    import random
    out = []
    n = 0
    for nd in (False, True):
        for src in ["inf_factor", "normalize_bins", "ctor", "setter", "huge_weights", "inf_weight", "inf_minus_inf"]:
            if nd and src == "normalize_bins":
                continue
            for ref in ["neg_factor", "neg_divisor", "sub_bigger", "set_negative", "ctor_negative"]:
                for rep in range(2):
                    n += 1
                    rng = random.Random(f"C18:nf_grid:{n}")
                    fr = _NF(rng, nd=nd, shape=[2, 2] if nd else [3])
                    fr.setup("float64" if rep else rng.choice(["float64", "int64", "float32"]))
                    t = fr.source(src)
                    fr.follow(ref, t)
                    fr.follow("pos_factor", t)
                    fr.follow(rng.choice(["neg_factor", "set_negative", "sub_bigger"]), t)
                    out.append(fr.case(["stream:nonfinite_grid", "kind:nf_src:" + src, "kind:nf_op:" + ref]))
    return out


# ---- oracle
def nf_must_refuse(op, before):
    """the reason why the property demands a refusal of `op` in the state `before` (None: no demand)"""
    def reg(i):
        return before[i] if isinstance(i, int) and 0 <= i < len(before) else None
    name = op["op"]
    if name == "nf_scale":
        h = reg(op["h"])
        if h is None:
            return None
        c = op["c"]
        if op["how"] in ("div", "idiv"):
            if c == "0":
                return "division by zero"
            if c not in NONFIN and Fraction(c) < 0 and any(is_pos(x) for x in h["freq"]):
                return f"negative divisor {c} on a histogram with a positive content"
        elif is_neg(c) and any(is_pos(x) for x in h["freq"]):
            return f"negative factor {c} on a histogram with a positive content"
        return None
    if name == "nf_set":
        if reg(op["h"]) is not None and any(is_neg(v) for v in op["vals"]):
            return f"assignment of a negative entry ({'frequencies' if op['which'] == 'freq' else 'errors2'} = {op['vals']})"
        return None
    if name == "nf_of_arrays":
        if any(is_neg(v) for v in op["freq"]):
            return f"constructor given a negative content {op['freq']}"
        if op.get("err2") is not None and any(is_neg(v) for v in op["err2"]):
            return f"constructor given a negative squared error {op['err2']}"
        return None
    if name in ("isub", "sub"):
        h, o = reg(op.get("h", op.get("a"))), reg(op.get("o", op.get("b")))
        if h is None or o is None or h["bins"] != o["bins"] or len(h["freq"]) != len(o["freq"]):
            return None
        for i, (x, y) in enumerate(zip(h["freq"], o["freq"])):
            if x not in NONFIN and y not in NONFIN and Fraction(x) < Fraction(y):
                return f"subtracting more than is there (bin {i}: {x} - {y})"
        return None
    return None


def _same_contents(x, y):
    if "shape" in x:
        from . import nd_parts
        return nd_parts._cells(x) == nd_parts._cells(y) and x["bins"] == y["bins"]
    return content_map(x) == content_map(y)


def _missed_of(x):
    return [x["missed"]] if "shape" in x else [x["under"], x["over"], x["inner"]]


def nf_oracle(case, io):
    outs, ops = io["outs"], case["ops"]
    fails = []
    for k, op in enumerate(ops):
        regs = outs[k]["regs"]
        before = outs[k - 1]["regs"] if k else []
        ret = outs[k]["ret"]
        for i, r in enumerate(regs):
            if r is None:
                continue
            for w in nf_wellformed(r):
                fails.append(f"illformed: after step {k} ({op['op']} {op.get('how', op.get('which', ''))}) register {i}: {w}")
        why = nf_must_refuse(op, before)
        if why is not None and ret != "REFUSED":
            fails.append(f"accepted_invalid: step {k} {op['op']} should have been refused: {why}")
        if ret == "REFUSED":
            for i, (x, y) in enumerate(zip(before, regs)):
                if x is None or y is None:
                    continue
                if not _same_contents(x, y):
                    fails.append(f"not_atomic: refused step {k} ({op['op']} {op.get('how', op.get('which', ''))}) changed contents of "
                                 f"register {i}: {x['freq']} / {x['err2']} -> {y['freq']} / {y['err2']}")
                if _missed_of(x) != _missed_of(y):
                    fails.append(f"not_atomic: refused step {k} ({op['op']}) changed the missed counts of register {i}: "
                                 f"{_missed_of(x)} -> {_missed_of(y)}")
                if x["dtype"] != y["dtype"] and not np.can_cast(np.dtype(x["dtype"]), np.dtype(y["dtype"])):
                    fails.append(f"not_atomic: refused step {k} changed dtype {x['dtype']} -> {y['dtype']} (not a lossless promotion)")
            if len(regs) > len(before) and any(r is not None for r in regs[len(before):]):
                fails.append(f"not_atomic: refused step {k} ({op['op']}) left a result behind")
        elif op["op"] == "nf_scale" and op["c"] in NF_POS:
            # an accepted scaling by a positive finite number: an undefined entry stays undefined, an infinite one infinite,
            # a finite one does not become undefined
            src = before[op["h"]] if op["h"] < len(before) else None
            res = regs[op.get("out", op["h"])] if op.get("out", op["h"]) < len(regs) else None
            if src is not None and res is not None and len(src["freq"]) == len(res["freq"]):
                for f in ("freq", "err2"):
                    for i, (x, y) in enumerate(zip(src[f], res[f])):
                        if (x is None) != (y is None) or (x == "inf" and y != "inf"):
                            fails.append(f"nonfinite_lost: step {k} ({op['how']} by {op['c']}) turned {f}[{i}] = {x} into {y}")
                            break
        if len(fails) > 6:
            break
    return fails[:6]


def nf_nontrivial(case, io):
    outs = io["outs"]
    first = next((k for k, o in enumerate(outs) if any(has_nonfinite(r) for r in o["regs"])), None)
    if first is None:
        return False
    rets = [o["ret"] for o in outs[first + 1:]]
    return "REFUSED" in rets and any(r != "REFUSED" for r in rets)


def nf_shrink(case):
    """drop one operation (never the first: the base histogram).  Operations on registers that no longer exist are answered
    REFUSED and change nothing, and the oracle takes its demands from the states actually reached, so every candidate is a
    well-formed case of the stream"""
    ops = case["ops"]
    for k in range(len(ops) - 1, 0, -1):
        c = copy.deepcopy(case)
        del c["ops"][k]
        yield c


def nf_neighbours(case):
    """the same history ending in each of the operations that must be refused, on every register"""
    nregs = 1 + max([o.get("out", 0) for o in case["ops"]] + [max(o.get("outs", [0])) for o in case["ops"]])
    size = len(case["ops"][0]["freq"])
    shape = case["ops"][0].get("axes") and [len(b["bins"]) for b in case["ops"][0]["axes"]]
    for h in range(nregs):
        tails = [{"op": "nf_scale", "h": h, "how": "mul", "c": "-1", "k": "pyint", "out": nregs},
                 {"op": "nf_scale", "h": h, "how": "imul", "c": "-5/2", "k": "pyfloat"},
                 {"op": "nf_scale", "h": h, "how": "idiv", "c": "-2", "k": "pyint"},
                 {"op": "isub", "h": h, "o": 2, "maybe_refused": True}]
        for which in ("freq", "err2"):
            t = {"op": "nf_set", "h": h, "which": which, "vals": [None, "-1"] + ["2"] * (size - 2), "k": "float64", "container": "array"}
            if shape:
                t["shape"] = shape
            tails.append(t)
        for t in tails:
            c = copy.deepcopy(case)
            c["ops"].append(t)
            yield c


# ------------------------------------------------------------------------------------------------------------------------
# stream:selhist -- selections INSIDE histories, on every binning kind (oracle only: the driver's `getitem` / `select` know
# plain ranges and integers on static / fixed-width axes -- see stream:selhist_model below for those)
#
# 1-D / N-d histograms (Histogram1D, Histogram2D, HistogramND, transformed N-d classes) whose axes come from the public binning
# functions (fixed_width -- adaptive or not --, integer, pretty, numpy, static incl. gapped, exponential); index expressions
# occur as operations: slices with steps > 1, plain ranges, integers, negative steps, masks / index arrays / lists, Ellipsis,
# empty selections, through `H[...]` (bare or tuple) and `H.select(axis, ...)` -- followed by MORE operations on the results
# (fill / fill_n at points taken from the bins the object shows, `+`, `+=`, `*`, merge_bins, projection, copy, another
# selection).  The later operations address whatever the histogram looks like when they run (points are given as fractions
# of the bin range of each axis), so every case is well-formed whatever the library answered before.
# Demanded (property text): after every step every live histogram is well-formed -- frequencies.shape == errors2.shape ==
# (number of bins of axis i)_i == h.shape, per-axis bin_count agrees, bins rising, dtype facts, nothing negative -- and a
# refused operation (the library refuses masks on N-d, any step in 1-D, negative steps, ...) leaves every content per bin
# interval, squared error, missed count where it was.  A slice selection has numpy's number of entries along each axis.
SH_SHARE_K = 1                 # k % 10 == SH_SHARE_K: stream:selhist;  k % 20 == 5: stream:selhist_model
SH_KINDS = ["fixed_width", "fixed_width_adaptive", "integer", "pretty", "numpy", "static", "static_gapped", "exponential"]
SH_KLASS2 = [None, None, None, "HistogramND", "PolarHistogram", "CylindricalSurfaceHistogram", "SphericalSurfaceHistogram"]
SH_KLASS3 = [None, None, "CylindricalHistogram", "SphericalHistogram"]


def _sh_binning(spec, col):
    from physt import binnings as B
    from ..impl1 import fl
    k = spec["kind"]
    if k in ("fixed_width", "fixed_width_adaptive"):
        return B.fixed_width_binning(data=col, bin_width=fl(spec["w"]), adaptive=(k == "fixed_width_adaptive"))
    if k == "integer":
        return B.integer_binning(data=col)
    if k == "pretty":
        return B.pretty_binning(data=col, bin_count=spec["n"])
    if k == "numpy":
        return B.numpy_binning(data=col, bins=spec["n"])
    if k == "exponential":
        return B.exponential_binning(data=col, bin_count=spec["n"])
    if k in ("static", "static_gapped"):
        return B.StaticBinning(np.array([[fl(l), fl(r)] for l, r in spec["pairs"]], dtype=float))
    raise KeyError(k)


def _sh_index(sub, n):
    """one sub-index of the case -> the Python object handed to the library (n: bins of the axis it addresses, as shown)"""
    if isinstance(sub, dict):
        if "s" in sub:
            return slice(*sub["s"])
        if "mask" in sub:
            m = np.arange(n) % 2 == 0
            return m if sub["mask"] == "array" else m.tolist()
        if "arr" in sub:
            return np.array([i for i in sub["arr"] if i < max(n, 1)], dtype=int)
        if "list" in sub:
            return [i for i in sub["list"] if i < max(n, 1)]
        raise KeyError(str(sub))
    if sub == "ellipsis":
        return Ellipsis
    return int(sub)


def sh_snap(x):
    from .. import implnd
    from physt.histogram1d import Histogram1D
    try:
        s = implnd.snapn(x)
        s["_hshape"] = [int(v) for v in x.shape]
        bs = [x.binning] if isinstance(x, Histogram1D) else list(x.binnings)
        s["_nbins"] = [int(b.bin_count) for b in bs]
        s["_binning_kinds"] = [type(b).__name__ for b in bs]
        return s
    except Exception as e:          # a histogram that cannot even be read through its public attributes
        return {"_snap_error": f"{type(e).__name__}: {e}"[:200]}


def _sh_axes_of(x):
    from physt.histogram1d import Histogram1D
    bins = [np.asarray(x.bins).reshape(-1, 2)] if isinstance(x, Histogram1D) else [np.asarray(b).reshape(-1, 2) for b in x.bins]
    return bins


def _sh_points(x, us, outside):
    """points inside the bins `x` shows: u in [0, 1) picks the bin of each axis, the point is its midpoint (outside: beyond the
    last edge of the first axis)"""
    axes = _sh_axes_of(x)
    pts = []
    for u in us:
        p = []
        for a, bb in enumerate(axes):
            if len(bb) == 0:
                p.append(1.0)
                continue
            i = min(int(u[a % len(u)] * len(bb)), len(bb) - 1)
            p.append(float((bb[i][0] + bb[i][1]) / 2))
        if outside and len(axes[0]):
            p[0] = float(axes[0][-1][1] + 3 * (axes[0][-1][1] - axes[0][-1][0]))
        pts.append(p)
    return pts


def sh_step(s, op, log):
    from .. import impl1, implnd
    from ..impl1 import fl
    from physt.histogram1d import Histogram1D
    name = op["op"]

    def reg(i):
        return s.regs[i] if 0 <= i < len(s.regs) else None

    for key in ("h", "a", "b", "o"):
        if key in op and reg(op[key]) is None:
            log.append(f"{name}: register {op[key]} does not exist")
            return impl1.REFUSED
    if name == "sh_make":
        rows = np.array([[fl(v) for v in r] for r in op["rows"]], dtype=float)
        d = len(op["axes"])
        ws = None if op.get("ws") is None else np.array([fl(w) for w in op["ws"]], dtype=float)

        def call():
            import physt
            bs = [_sh_binning(spec, rows[:, a]) for a, spec in enumerate(op["axes"])]
            if d == 1:
                r = Histogram1D(bs[0], dtype=None if ws is None else np.dtype("float64"))
                r.fill_n(rows[:, 0], ws)
            elif op.get("klass"):
                r = implnd.special_class(op["klass"])(bs)
                r.fill_n(rows, ws, **({} if op["klass"] == "HistogramND" else {"transformed": True}))
            elif op.get("via") == "h":
                r = physt.h(rows, bs, weights=ws)
            else:
                from physt.histogram_nd import Histogram2D, HistogramND
                r = (Histogram2D if d == 2 else HistogramND)(bs)
                r.fill_n(rows, ws)
            s.set(op["out"], r)
    elif name == "sh_sel":
        x = reg(op["h"])
        shape = list(x.shape)
        if op["how"] == "select":
            ax = op["axis"] % max(x.ndim, 1)
            idx = _sh_index(op["index"][0], shape[ax] if shape else 0)

            def call():
                r = x.select(ax, idx)
                if isinstance(r, tuple):                    # one bin of a 1-D histogram: (edges, content)
                    return
                s.set(op["out"], r)
        else:
            subs = [_sh_index(j, shape[i] if i < len(shape) else 0) for i, j in enumerate(op["index"])]
            idx = subs[0] if op.get("bare") and len(subs) == 1 else tuple(subs)

            def call():
                r = x[idx]
                if isinstance(r, tuple):
                    return
                s.set(op["out"], r)
    elif name == "sh_fill":
        x = reg(op["h"])
        pts = _sh_points(x, op["u"], op.get("outside", False))
        one_d = isinstance(x, Histogram1D)
        ws = None if op.get("ws") is None else np.array([fl(w) for w in op["ws"]][:len(pts)], dtype=float)

        from physt.special_histograms import TransformedHistogramMixin
        tkw = {"transformed": True} if isinstance(x, TransformedHistogramMixin) else {}     # the points are bin coordinates

        def call():
            if op.get("single"):
                x.fill(pts[0][0] if one_d else pts[0], **({} if ws is None else {"weight": float(ws[0])}), **tkw)
            else:
                data = np.array(pts, dtype=float)
                x.fill_n(data[:, 0] if one_d else data, ws, **tkw)
    elif name == "sh_add":
        a, b = reg(op["a"]), reg(op["b"])

        def call():
            if op.get("inplace"):
                y = a
                y += b
                s.set(op["a"], y)
            else:
                s.set(op["out"], a + b)
    elif name == "sh_scale":
        x = reg(op["h"])
        c = impl1.num_of(op["c"], op["k"])

        def call():
            if op.get("inplace"):
                y = x
                y *= c
                s.set(op["h"], y)
            else:
                s.set(op["out"], (c * x) if op.get("reflected") else (x * c))
    elif name == "sh_merge":
        x = reg(op["h"])

        def call():
            kw = {} if isinstance(x, Histogram1D) else {"axis": op["axis"] % x.ndim}
            r = x.merge_bins(op["amount"], inplace=op.get("inplace", False), **kw)
            if not op.get("inplace", False):
                s.set(op["out"], r)
    elif name == "sh_proj":
        x = reg(op["h"])

        def call():
            s.set(op["out"], x.projection(op["axis"] % max(x.ndim, 1)))
    elif name == "sh_copy":
        x = reg(op["h"])

        def call():
            s.set(op["out"], x.copy())
    else:
        raise KeyError(name)
    try:
        call()
        return "ok"
    except KeyError:
        raise
    except Exception as e:
        log.append(f"{name}: {type(e).__name__}: {e}"[:200])
        return impl1.REFUSED


def sh_run(case):
    from .. import impl1
    s = impl1.Store()
    outs, log = [], []
    for op in case["ops"]:
        ret = sh_step(s, op, log)
        outs.append({"ret": ret, "regs": [None if h is None else sh_snap(h) for h in s.regs]})
    return {"outs": outs, "log": log}


# ---- generation
def _sh_axis_spec(rng, kind):
    if kind in ("fixed_width", "fixed_width_adaptive"):
        return {"kind": kind, "w": rs(rng.choice([1.0, 1.0, 0.5, 2.0]))}
    if kind in ("pretty", "numpy", "exponential"):
        return {"kind": kind, "n": rng.randint(4, 7)}
    if kind == "integer":
        return {"kind": kind}
    nb = rng.randint(4, 7)
    e = [0.0]
    for _ in range(nb):
        e.append(e[-1] + rng.choice([1.0, 1.5, 2.0, 0.5]))
    e = [x * 7.5 / e[-1] for x in e] if rng.random() < 0.3 else e
    pairs = [[e[i], e[i + 1]] for i in range(nb)]
    if kind == "static_gapped":
        j = rng.randrange(1, nb)
        pairs[j][0] = (pairs[j][0] + pairs[j][1]) / 2            # a gap before bin j
    return {"kind": kind, "pairs": [[rs(l), rs(r)] for l, r in pairs]}


def _sh_slice(rng, stepped):
    """[start, stop, step] of a selection along one axis (4 .. 14 bins)"""
    if stepped:
        return [rng.choice([None, None, 0, 1, 2]), rng.choice([None, None, None, -1, 6, 5]), rng.choice([2, 2, 2, 3, 100])]
    r = rng.random()
    if r < 0.15:
        return rng.choice([[2, 2, None], [3, 1, None], [50, None, None], [1, 1, 1]])          # empty
    return [rng.choice([None, 0, 1, 2, -3]), rng.choice([None, None, 3, 4, -1]), rng.choice([None, None, 1])]


def _sh_sub(rng, form):
    if form == "stepped":
        return {"s": _sh_slice(rng, True)}
    if form == "range":
        return {"s": _sh_slice(rng, False)}
    if form == "int":
        return rng.choice([0, 1, -1, 2, 3, 40])
    if form == "neg_step":
        return {"s": [None, None, rng.choice([-1, -2])]}
    if form == "mask":
        return {"mask": rng.choice(["array", "list"])}
    if form == "arr":
        return {"arr": sorted(rng.sample(range(5), rng.randint(0, 3)))}
    if form == "list":
        return {"list": sorted(rng.sample(range(5), rng.randint(1, 3)))}
    if form == "all":
        return {"s": [None, None, None]}
    if form == "ellipsis":
        return "ellipsis"
    raise KeyError(form)


SH_FORMS = ["stepped", "stepped", "stepped", "stepped", "range", "range", "int", "neg_step", "mask", "arr", "list", "ellipsis"]


def _sh_sel_op(rng, h, out, d, form=None, axis=None):
    form = form or rng.choice(SH_FORMS)
    axis = rng.randrange(max(d, 1)) if axis is None else axis
    how = rng.choice(["getitem", "getitem", "select"]) if d > 1 else "getitem"
    if how == "select":
        return {"op": "sh_sel", "h": h, "out": out, "how": "select", "axis": axis, "index": [_sh_sub(rng, form)], "form": form}
    if d > 1:
        index = [_sh_sub(rng, "all") for _ in range(axis)] + [_sh_sub(rng, form)]
        for _ in range(axis + 1, d):                        # the axes after it: left out, everything, or selected as well
            r = rng.random()
            if r < 0.4:
                break
            index.append(_sh_sub(rng, "all" if r < 0.7 else rng.choice(["stepped", "range", "int"])))
        bare = len(index) == 1 and rng.random() < 0.5
    else:
        index, bare = [_sh_sub(rng, form)], True
    return {"op": "sh_sel", "h": h, "out": out, "how": "getitem", "index": index, "bare": bare, "form": form}


def _sh_rows(rng, d, n):
    return [[rs(rng.randint(4, 60) / 8) for _ in range(d)] for _ in range(n)]


def _sh_make(rng, out, d, kinds, klass=None):
    return {"op": "sh_make", "out": out, "axes": [_sh_axis_spec(rng, k) for k in kinds], "klass": klass,
            "via": rng.choice(["h", "fill_n"]), "rows": _sh_rows(rng, d, rng.randint(12, 40)),
            "ws": None}


def _sh_follow(rng, regs, nfree, kind):
    """one later operation on a register of `regs`; (op, nfree)"""
    h = rng.choice(regs)
    us = [[rng.random() for _ in range(3)] for _ in range(rng.choice([1, 2, 5]))]
    if kind == "fill":
        return {"op": "sh_fill", "h": h, "u": us[:1], "single": True, "outside": rng.random() < 0.15}, nfree
    if kind == "fill_n":
        return {"op": "sh_fill", "h": h, "u": us, "outside": rng.random() < 0.15,
                "ws": None if rng.random() < 0.6 else [rs(rng.choice([1, 2, 0.5])) for _ in us]}, nfree
    if kind == "add":
        o = rng.choice(regs)
        if rng.random() < 0.5:
            return {"op": "sh_add", "a": h, "b": o, "inplace": True}, nfree
        return {"op": "sh_add", "a": h, "b": o, "out": nfree}, nfree + 1
    if kind == "scale":
        c, k = rng.choice([("2", "pyint"), ("3", "pyint"), ("1/2", "pyfloat"), ("2", "pyfloat")])
        if rng.random() < 0.5:
            return {"op": "sh_scale", "h": h, "c": c, "k": k, "inplace": True}, nfree
        return {"op": "sh_scale", "h": h, "c": c, "k": k, "out": nfree, "reflected": rng.random() < 0.3}, nfree + 1
    if kind == "merge":
        if rng.random() < 0.5:
            return {"op": "sh_merge", "h": h, "axis": rng.randrange(3), "amount": rng.choice([2, 2, 3]), "inplace": True}, nfree
        return {"op": "sh_merge", "h": h, "axis": rng.randrange(3), "amount": rng.choice([2, 2, 3]), "out": nfree}, nfree + 1
    if kind == "proj":
        return {"op": "sh_proj", "h": h, "axis": rng.randrange(3), "out": nfree}, nfree + 1
    if kind == "copy":
        return {"op": "sh_copy", "h": h, "out": nfree}, nfree + 1
    raise KeyError(kind)


SH_FOLLOW = ["fill", "fill_n", "fill_n", "add", "add", "scale", "merge", "proj", "copy"]


def sh_gen(rng):
    d = rng.choice([1, 2, 2, 2, 2, 3])
    kinds = [rng.choice(SH_KINDS) for _ in range(d)]
    klass = rng.choice(SH_KLASS2) if d == 2 else (rng.choice(SH_KLASS3) if d == 3 else None)
    ops = [_sh_make(rng, 0, d, kinds, klass)]
    tags = [f"d:{d}", "klass:" + (klass or ("Histogram1D" if d == 1 else "default"))] + ["binning:" + k for k in sorted(set(kinds))]
    nfree = 1
    live = [0]                     # registers later operations may address
    sel_regs = []
    twin = None
    for _ in range(rng.randint(2, 4)):
        src = rng.choice(live)
        op = _sh_sel_op(rng, src, nfree, d)
        tags.append("sel:" + op["form"])
        ops.append(op)
        # forms the library is known to refuse (N-d: masks, index arrays, lists, Ellipsis, negative steps; 1-D: any step,
        # an integer gives a pair): the later operations then go to the source, which must still be intact and usable
        likely = op["form"] in (("stepped", "range", "int") if d > 1 else ("range", "mask", "arr", "list"))
        sel_regs.append(nfree if likely else src)
        if likely:
            live.append(nfree)
        nfree += 1
        if likely and rng.random() < 0.35:
            # the same selection once more (of a copy of the source): two results that can be added
            twin = copy.deepcopy(op)
            twin["out"] = nfree
            ops.append(twin)
            ops.append({"op": "sh_add", "a": nfree - 1, "b": nfree, "inplace": rng.random() < 0.5, "out": nfree + 1})
            live.append(nfree)
            nfree += 2
        for _ in range(rng.randint(1, 3)):
            kind = rng.choice(SH_FOLLOW)
            tags.append("then:" + kind)
            op2, nfree = _sh_follow(rng, [sel_regs[-1], sel_regs[-1], rng.choice(live)], nfree, kind)
            ops.append(op2)
            if "out" in op2:
                live.append(op2["out"])
    return {"kind": "histn", "sub": "selhist", "ops": ops, "tolerance": True,
            "tags": ["stream:selhist", "stream:selhist:" + ("1d" if d == 1 else "nd")] + tags}


def sh_grid():
    """every binning kind x every selection form (on that axis of a 2-D / 3-D / 1-D histogram), each followed by a fill_n, an
    addition of two equal selections and a merge (the same on every seed)"""
    import random
    out = []
    n = 0
    for kind in SH_KINDS:
        for form in ["stepped", "range", "int", "neg_step", "mask", "arr", "ellipsis"]:
            for d, axis in ((2, 0), (2, 1), (3, 1), (1, 0)):
                if d == 3 and form not in ("stepped", "range"):
                    continue
                n += 1
                rng = random.Random(f"C18:sh_grid:{n}")
                kinds = [rng.choice(SH_KINDS) for _ in range(d)]
                kinds[axis] = kind
                ops = [_sh_make(rng, 0, d, kinds, None)]
                sel = _sh_sel_op(rng, 0, 1, d, form=form, axis=axis)
                twin = dict(copy.deepcopy(sel), out=2)
                ops += [sel, twin,
                        {"op": "sh_fill", "h": 1, "u": [[rng.random() for _ in range(3)] for _ in range(3)]},
                        {"op": "sh_add", "a": 1, "b": 2, "out": 3},
                        {"op": "sh_merge", "h": 2, "axis": axis, "amount": 2, "inplace": True},
                        {"op": "sh_scale", "h": 1, "c": "2", "k": "pyint", "inplace": True}]
                out.append({"kind": "histn", "sub": "selhist", "ops": ops, "tolerance": True,
                            "tags": ["stream:selhist_grid", "binning:" + kind, "sel:" + form, f"d:{d}"]})
    return out


# ---- oracle
def sh_wellformed(snap):
    if "_snap_error" in snap:
        return ["unreadable: the histogram's public attributes cannot be read: " + snap["_snap_error"]]
    out = nf_wellformed(snap)
    nb = [len(b) for b in snap["bins"]]
    if snap["_hshape"] != snap["shape"]:
        out.append(f"shape: h.shape says {snap['_hshape']}, frequencies have shape {snap['shape']}")
    if snap["_hshape"] != nb or snap["_nbins"] != nb:
        out.append(f"shape: h.shape = {snap['_hshape']}, bin_count of the binnings = {snap['_nbins']}, bins listed per axis = {nb}, "
                   f"frequencies have shape {snap['shape']}")
    return out


def _sh_expected_shape(op, parent):
    """numpy's shape of the selection when every sub-index is a slice / an integer in range (else None)"""
    shape = parent["shape"]
    subs = op["index"]
    if op["how"] == "select":
        ax = op["axis"] % max(len(shape), 1)
        subs = [{"s": [None, None, None]}] * ax + list(subs)
    if len(subs) > len(shape):
        return None
    idx = []
    for i, j in enumerate(subs):
        if isinstance(j, dict) and "s" in j:
            if j["s"][2] is not None and j["s"][2] < 0:
                return None
            idx.append(slice(*j["s"]))
        elif isinstance(j, int) and len(shape) > 1 and -shape[i] <= j < shape[i]:
            idx.append(j)
        else:
            return None
    return list(np.zeros(shape, dtype=bool)[tuple(idx)].shape)


def sh_oracle(case, io):
    from . import nd_parts
    outs, ops = io["outs"], case["ops"]
    fails = []
    for k, op in enumerate(ops):
        regs = outs[k]["regs"]
        before = outs[k - 1]["regs"] if k else []
        ret = outs[k]["ret"]
        what = op["op"] + (" " + str(op.get("index")) if op["op"] == "sh_sel" else "")
        for i, r in enumerate(regs):
            if r is None:
                continue
            for w in sh_wellformed(r):
                fails.append(f"illformed: after step {k} ({what}) register {i}: {w}")
        if ret == "REFUSED":
            for i, (x, y) in enumerate(zip(before, regs)):
                if x is None or y is None or "_snap_error" in x or "_snap_error" in y:
                    continue
                if nd_parts._cells(x) != nd_parts._cells(y):
                    fails.append(f"not_atomic: refused step {k} ({what}) changed contents of register {i}: {x['freq']} / {x['err2']} "
                                 f"-> {y['freq']} / {y['err2']}")
                if x["missed"] != y["missed"]:
                    fails.append(f"not_atomic: refused step {k} ({what}) changed the missed count of register {i}: "
                                 f"{x['missed']} -> {y['missed']}")
                if x["dtype"] != y["dtype"] and not np.can_cast(np.dtype(x["dtype"]), np.dtype(y["dtype"])):
                    fails.append(f"not_atomic: refused step {k} changed dtype {x['dtype']} -> {y['dtype']} (not a lossless promotion)")
            if len(regs) > len(before) and any(r is not None for r in regs[len(before):]):
                fails.append(f"not_atomic: refused step {k} ({what}) left a result behind")
        elif op["op"] == "sh_sel" and op["h"] < len(before) and before[op["h"]] is not None and "_snap_error" not in before[op["h"]]:
            exp = _sh_expected_shape(op, before[op["h"]])
            res = regs[op["out"]] if op["out"] < len(regs) else None
            if exp is not None and exp and res is not None and "_snap_error" not in res:
                nb = [len(b) for b in res["bins"]]
                if nb != exp or res["shape"] != exp:
                    fails.append(f"sel_shape: step {k} ({what}) of a histogram of shape {before[op['h']]['shape']}: numpy's selection has "
                                 f"shape {exp}, the result lists {nb} bins per axis over contents of shape {res['shape']}")
        if len(fails) > 6:
            break
    return fails[:6]


def sh_nontrivial(case, io):
    """at least one accepted selection with a later accepted operation"""
    outs = io["outs"]
    first = next((k for k, (op, o) in enumerate(zip(case["ops"], outs)) if op["op"] == "sh_sel" and o["ret"] == "ok"), None)
    return first is not None and any(o["ret"] == "ok" for o in outs[first + 1:])


def sh_shrink(case):
    """drop one operation (never the first), then rows of the data; operations on registers that do not exist are answered
    REFUSED and change nothing, and all later operations take their points from the histogram they find"""
    ops = case["ops"]
    for k in range(len(ops) - 1, 0, -1):
        c = copy.deepcopy(case)
        del c["ops"][k]
        yield c
    rows = ops[0].get("rows") or []
    if len(rows) > 4:
        for part in (slice(0, len(rows) // 2), slice(len(rows) // 2, None)):
            c = copy.deepcopy(case)
            c["ops"][0]["rows"] = rows[part]
            yield c


def sh_neighbours(case):
    """the same history with every selection's step changed (2 <-> 3 <-> none)"""
    for k, op in enumerate(case["ops"]):
        if op["op"] != "sh_sel":
            continue
        for i, j in enumerate(op["index"]):
            if isinstance(j, dict) and "s" in j:
                for st in (None, 2, 3):
                    if st != j["s"][2]:
                        c = copy.deepcopy(case)
                        c["ops"][k]["index"][i]["s"][2] = st
                        yield c


# ---- stream:selhist_model -- the part of the class the Lean driver can express: plain ranges / integers (getitem, select) on
# static (incl. gapped) and fixed-width (adaptive or not) axes inside histories of the generic N-d op language, followed by
# fill / fill_n / imul / add / merge / projection / another selection on the results; model + nd_parts.c18_oracle
def sm_gen(rng):
    d = rng.choice([2, 2, 3])
    axes, pairs_of = [], []
    tags = ["stream:selhist_model", "nd", f"d:{d}"]
    for a in range(d):
        if rng.random() < 0.5:
            w, tmin, cnt = rng.choice([1.0, 0.5, 2.0]), rng.randint(-2, 2), rng.randint(3, 5)
            ad = rng.random() < 0.4
            axes.append(gen1.fixed_json(w, tmin, cnt, 0.0, adaptive=ad))
            pairs = [[(tmin + i) * w, (tmin + i + 1) * w] for i in range(cnt)]
            tags.append("binning:fixed_width" + ("_adaptive" if ad else ""))
        else:
            nb = rng.randint(3, 5)
            e = [float(rng.choice([0, 1, -2]))]
            for _ in range(nb):
                e.append(e[-1] + rng.choice([1.0, 0.5, 2.0]))
            pairs = [[e[i], e[i + 1]] for i in range(nb)]
            gap = rng.random() < 0.3
            if gap:
                pairs[1][0] += 0.25
            axes.append(gen1.binning_json(pairs, ire=rng.random() < 0.7, form="static_obj"))
            tags.append("binning:static" + ("_gapped" if gap else ""))
        pairs_of.append(pairs)
    n = _prod([len(p) for p in pairs_of])
    ops = []
    dt = rng.choice(["int64", "float64"])
    for reg in (0, 1):
        f = [rng.randint(0, 9) for _ in range(n)]
        e = None if rng.random() < 0.5 else [rng.randint(0, 12) for _ in range(n)]
        ops.append({"op": "of_arrays", "out": reg, "axes": axes, "freq": [rs(x) for x in f], "err2": None if e is None else [rs(x) for x in e],
                    "missed": rs(rng.randint(0, 4)), "dtype": dt, "keep": rng.random() < 0.85, "names": [f"ax{i}" for i in range(d)]})
    state = {0: pairs_of, 1: pairs_of}
    nfree = 2

    def sel_of(src, out):
        ps = state[src]
        ax = rng.randrange(len(ps))
        m = len(ps[ax])
        if len(ps) == 3 and rng.random() < 0.25:
            j = rng.randrange(-m, m)
            new = [p for i, p in enumerate(ps) if i != ax]
            sub = j
        else:
            a = rng.randrange(0, m)
            b = rng.randint(a + 1, m)
            if rng.random() < 0.1:
                b = a                                         # empty
            new = [p if i != ax else p[a:b] for i, p in enumerate(ps)]
            sub = {"s": [rng.choice([a, a - m]) if (a or rng.random() < 0.5) else None, b if (b < m or rng.random() < 0.5) else None]}
            if sub["s"] == [None, None]:
                # `select(axis, slice(None))` hands back the histogram itself: two registers would be one object, which the
                # model's value registers cannot express (the oracle-only stream has such selections)
                sub = {"s": [0, None]}
        if rng.random() < 0.4:
            op = {"op": "select", "h": src, "axis": ax, "index": sub, "out": out}
        else:
            op = {"op": "getitem", "h": src, "index": [{"s": [None, None]}] * ax + [sub], "out": out}
        return op, new

    for _ in range(rng.randint(1, 3)):
        cands = [r for r, ps in state.items() if ps is not None and len(ps) >= 2 and all(len(p) >= 1 for p in ps)]
        if not cands:
            break
        src = rng.choice(cands)
        op, new = sel_of(src, nfree)
        ops.append(op)
        t = nfree
        state[t] = new
        nfree += 1
        tags.append("sel:int" if not isinstance(op["index"] if op["op"] == "select" else op["index"][-1], dict) else "sel:range")
        if src in (0, 1) and rng.random() < 0.4:
            op2 = dict(copy.deepcopy(op), h=1 - src, out=nfree)
            ops.append(op2)
            ops.append({"op": "add", "a": t, "b": nfree, "out": nfree + 1})
            state[nfree], state[nfree + 1] = new, new
            nfree += 2
            tags.append("then:add")
        for _ in range(rng.randint(1, 3)):
            ps = state[t]
            if ps is None or any(len(p) == 0 for p in ps):
                break
            kind = rng.choice(["fill", "fill_n", "imul", "merge", "proj", "copy"])
            tags.append("then:" + kind)
            pt = lambda: [rs((lambda b: (b[0] + b[1]) / 2)(rng.choice(p))) for p in ps]
            if kind == "fill":
                ops.append({"op": "fill", "h": t, "v": pt(), "w": "1", "wk": "pyint", "default_w": False})
            elif kind == "fill_n":
                ops.append({"op": "fill_n", "h": t, "rows": [pt() for _ in range(rng.choice([1, 3]))], "ws": None, "wkind": None})
            elif kind == "imul":
                ops.append({"op": "imul", "h": t, "c": rng.choice(["2", "3"]), "k": "pyint"})
            elif kind == "merge":
                ops.append({"op": "merge", "h": t, "amount": 2, "axis": rng.randrange(len(ps)), "inplace": True, "maybe_refused": True})
                state[t] = None
            elif kind == "proj":
                ops.append({"op": "projection", "h": t, "axes": [rng.randrange(len(ps))], "out": nfree})
                state[nfree] = None
                nfree += 1
            else:
                ops.append({"op": "copy", "h": t, "out": nfree, "with_freq": True})
                state[nfree] = ps
                nfree += 1
    return {"kind": "histn", "ops": ops, "tags": tags, "tolerance": False, "sub": "nd"}


class C18(Hist1Prop):
    ID = "C18"
    N_QUICK = 400
    N_THOROUGH = 12000
    RULE = ("random histories (2-10 ops) of public 1-D operations on static / gapped / adaptive histograms, int and float, "
            "with invalid calls (incompatible or non-histogram operand, wrong weight shape, negative factor, zero divisor, "
            "refused dtype, subtracting too much, bad index, non-integral merge amount) injected at random positions; after "
            "every step every live histogram is checked for well-formedness, after every refused step all are compared with "
            "their snapshot before. non-trivial = at least one refused and one successful mutating step; distinct = op-list hash. "
            "stream:nonfinite (every 10th case, 1-D and N-d, oracle only: the model's contents are rationals): histories over "
            "histograms holding NaN / inf contents, squared errors or missed counts (infinite factor on an empty bin, "
            "normalize_bins with a bin empty in all members, NaN / inf given to the constructor or the setters, overflowing "
            "weight sums, inf - inf), followed by negative factors / divisors, too large subtractions, assignments and "
            "constructions with a negative entry beside NaN / inf (all to be refused, nothing changed, no finite entry or -inf "
            "negative afterwards) mixed with accepted operations; plus a fixed grid source x refused operation in 1-D and 2-D. "
            "stream:selhist (every 10th case, oracle only) + fixed grid binning kind x selection form: selections inside histories "
            "on every binning kind (fixed_width adaptive or not / integer / pretty / numpy / static incl. gapped / exponential; "
            "Histogram1D, Histogram2D, HistogramND, transformed N-d classes): stepped slices, ranges, integers, negative steps, "
            "masks, index arrays, lists, Ellipsis, empty selections via H[...] and H.select, followed by fill / fill_n / + / += / * / "
            "merge_bins / projection / copy / further selections on the results; every live histogram well-formed after every "
            "step (frequencies.shape == errors2.shape == bins per axis == h.shape == bin_count of the binnings), slice selections "
            "have numpy's shape, refused selections change nothing. stream:selhist_model (every 20th case, model + oracle): plain "
            "ranges / integers on static and fixed-width axes inside generic N-d histories")
    FIELDS = {"bins", "freq", "err2", "under", "over", "inner", "total", "dtype", "keep"}

    def gen_case(self, rng, k, tier):
        if k % NF_SHARE == 7:
            return nf_gen(rng)
        if k % 10 == SH_SHARE_K:
            return sh_gen(rng)
        if k % 20 == 5:
            return sm_gen(rng)
        if k % 5 == 3:
            from . import nd_parts
            return nd_parts.c18_gen(rng)
        # a quarter of the histories start from contents / squared errors near the limits of the narrow types, so that
        # refused (and wrongly accepted) dtype changes are part of the histories too
        focus = rng.random() < 0.25
        ops, tags = history1.history(rng, nops=(2, 9), invalid_share=0.35, dtype_focus=focus)
        if focus:
            tags = tags + ["dtype_focus"]
            if rng.random() < 0.7:
                # end with a narrowing request: it must be refused whenever a content *or a squared error* is out of range
                rounded = any(o["op"] == "normalize" for o in ops)     # see history1: no integer targets after a normalisation
                ops = ops + [{"op": "set_dtype", "h": rng.choice([0, 1]),
                              "dtype": "float16" if rounded else rng.choice(["int16", "int16", "int32", "float16"]),
                              "maybe_refused": True, "via_property": rng.random() < 0.5}]
        tol = any(o["op"] in ("normalize",) for o in ops)
        return {"kind": "hist1", "ops": ops, "tags": tags, "tolerance": tol or focus}   # narrow types round their input

    def fields_for(self, case):
        # numpy sums a narrow float / int array in its own type: the total of values near the type's limit is rounded
        # (or inf); contents and errors themselves are still compared exactly
        return self.FIELDS - {"total"} if "dtype_focus" in case.get("tags", []) else self.FIELDS

    def exhaustive_cases(self, tier):
        return nf_grid() + sh_grid()

    def model_case(self, case, io):
        # contents of the Lean model are rationals: histories with NaN / inf contents are checked by the oracle only
        return None if case.get("sub") in ("nonfinite", "selhist") else case

    def neighbours(self, case):
        if case.get("sub") == "selhist":
            return sh_neighbours(case)
        return nf_neighbours(case) if case.get("sub") == "nonfinite" else []

    def shrink_candidates(self, case):
        if case.get("sub") == "nonfinite":
            yield from nf_shrink(case)
            return
        if case.get("sub") == "selhist":
            yield from sh_shrink(case)
            return
        ops = case["ops"]
        for k in range(len(ops) - 1, 2, -1):
            c = copy.deepcopy(case)
            del c["ops"][k]
            yield c

    def run_impl(self, case):
        if case.get("sub") == "nonfinite":
            return nf_run(case)
        if case.get("sub") == "selhist":
            return sh_run(case)
        if case.get("kind") == "histn":
            from .. import implnd
            outs, log = implnd.run(case)
            return {"outs": outs, "log": log}
        from .. import impl1
        # merge_frac is not in the generic language
        s = impl1.Store()
        outs, log = [], []
        for op in case["ops"]:
            if op["op"] == "invalid" and op["what"] == "merge_frac":
                try:
                    s.get(op["h"]).merge_bins(2.5, inplace=True)
                    ret = "accepted"
                except Exception as e:
                    log.append(f"{type(e).__name__}: {e}"[:200])
                    ret = "REFUSED"
            else:
                ret = impl1.step(s, op, log)
            outs.append({"ret": ret, "regs": [None if h is None else impl1.snap1(h) for h in s.regs]})
        return {"outs": outs, "log": log}

    def oracle(self, case, io):
        if case.get("sub") == "nonfinite":
            return nf_oracle(case, io)
        if case.get("sub") == "selhist":
            return sh_oracle(case, io)
        if case.get("kind") == "histn":
            from . import nd_parts
            return nd_parts.c18_oracle(case, io)
        outs, ops = io["outs"], case["ops"]
        fails = []
        for k, op in enumerate(ops):
            regs = outs[k]["regs"]
            for i, r in enumerate(regs):
                if r is None:
                    continue
                for w in wellformed(r):
                    fails.append(f"illformed: after step {k} ({op['op']}) register {i}: {w}")
            ret = outs[k]["ret"]
            if op.get("expect_refused") and ret != "REFUSED":
                fails.append(f"accepted_invalid: step {k} {op['op']} ({op.get('what', '')}) should have been refused")
            if op["op"] == "invalid" and ret != "REFUSED":
                fails.append(f"accepted_invalid: step {k} {op['what']} accepted")
            if ret == "REFUSED" and k > 0:
                before = outs[k - 1]["regs"]
                for i, (x, y) in enumerate(zip(before, regs)):
                    if x is None or y is None:
                        continue
                    if content_map(x) != content_map(y):
                        fails.append(f"not_atomic: refused step {k} ({op['op']} {op.get('what', '')}) changed contents of register {i}: {x['freq']} -> {y['freq']}")
                    for m in ("under", "over", "inner"):
                        if x[m] != y[m]:
                            fails.append(f"not_atomic: refused step {k} ({op['op']}) changed {m} of register {i}: {x[m]} -> {y[m]}")
                    if x["dtype"] != y["dtype"] and not np.can_cast(np.dtype(x["dtype"]), np.dtype(y["dtype"])):
                        fails.append(f"not_atomic: refused step {k} changed dtype {x['dtype']} -> {y['dtype']} (not a lossless promotion)")
            if ret == "REFUSED" and not (op.get("expect_refused") or op.get("maybe_refused") or op["op"] == "invalid"):
                # a valid call was refused: allowed only for the documented reasons
                if not self.refusal_ok(op, outs, k):
                    fails.append(f"refused_valid: step {k} {op} refused: " + "; ".join(io["log"][-2:]))
            if len(fails) > 6:
                break
        return fails[:6]

    def refusal_ok(self, op, outs, k):
        before = outs[k - 1]["regs"] if k else []
        def reg(i):
            return before[i] if i < len(before) else None
        if any(reg(op.get(x)) is None for x in ("h", "a", "b", "o") if x in op):
            return True   # an operand does not exist because its creation was refused
        if op["op"] in ("iadd", "add"):
            a, b = reg(op.get("h", op.get("a"))), reg(op.get("o", op.get("b")))
            if a["bins"] != b["bins"]:
                # different bins: fine unless both adaptive on the same grid with nothing missed
                return True
        if op["op"] == "construct":
            return True
        if op["op"] in ("fill", "fill_n"):
            h = reg(op["h"])
            return h is not None and len(h["bins"]) == 0
        return False

    def nontrivial(self, case, io):
        if case.get("sub") == "nonfinite":
            return nf_nontrivial(case, io)
        if case.get("sub") == "selhist":
            return sh_nontrivial(case, io)
        rets = [o["ret"] for o in io["outs"][3:]]
        return "REFUSED" in rets and any(r != "REFUSED" for r in rets)


PROP = C18()

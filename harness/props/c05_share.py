"""C05 -- two oracle-only streams (no model route: the op language has neither shared arrays nor binnings of nearly equal width).

stream:shared_memory  (sub == "share")
    Operands that share memory with each other or with a third live histogram c: a histogram constructed FROM another
    histogram's arrays (`Histogram1D(binning, h.frequencies, h.errors2)`, `Histogram2D(binnings, H.frequencies, H.errors2)`: np.asarray
    keeps the caller's arrays when the dtype is the same), from views of them, `Histogram1D.from_xarray(h.to_xarray())`, a histogram
    whose frequencies and errors2 were given as the SAME array.  Then `a + b`, `b + a`, `sum([a, b])` and IN-PLACE `a += b` /
    `b += a` / `a += c` / `c += a` on the live objects (not on copies: a copy has arrays of its own).  Every live histogram is
    snapshotted before and after every call.  The property pins:
      * operands are never modified: every live histogram other than the target of `+=` reports after the call exactly what it
        reported before (what the constructors / from_xarray share is the library's business; addition must not write through it);
      * the result holds the pointwise sums of what both operands reported BEFORE the call (bin by bin, keyed by the bins' edges;
        total + missed is conserved; equal bins add the missed slots; dtype = numpy promotion);
      * equal bins / two adaptive operands on one grid without missed weight are accepted.

stream:near_equal_widths  (sub == "nearw")
    Adaptive fixed-width operands (1-D, or one axis of a 2-d histogram) with different ranges and different bin COUNTS (so the
    equal-bins branch with its allclose band is never the subject) whose bin widths differ by a relative 0 (control), 1e-9, 1e-7,
    4e-6, 1e-5, 1e-3, with data far from the origin (grid index 1e5 .. 1e7) or near it, same / different first index.  The
    property pins: incompatible bins are refused, or else the sum is the histogram of the combined data over the result's bins.
    So: a refusal is fine (for exactly equal widths the addition must be accepted); an ACCEPTED sum must hold every value of
    both data sets in the bin of the RESULT that contains it (exact Fraction comparison of the raw doubles with the result's
    edges; the values are placed well inside their cells of BOTH grids, so no edge rounding can decide), must not lose weight,
    and `a + b` must equal `b + a` (and sum / += agree) wherever both were accepted.  Operands unchanged.
"""
from __future__ import annotations

import copy
from fractions import Fraction

import numpy as np

from .. import impl1, implnd
from ..core import Rng, case_hash, nrs, rs

SHARE_STREAM = "stream:shared_memory"
NEARW_STREAM = "stream:near_equal_widths"
F = Fraction


# ======================================================================================================================
# common: snapshots and views
def snap(h):
    from physt.types import Histogram1D
    s = implnd.snapn(h)
    if isinstance(h, Histogram1D):
        s.update(under=nrs(h.underflow), over=nrs(h.overflow), inner=nrs(h.inner_missed), stats=impl1.snap_stats(h))
    return s


def public(s):
    return {k: v for k, v in s.items() if not k.startswith("_")}


def changed_fields(p, q):
    p, q = public(p), public(q)
    return [k for k in p if p[k] != q.get(k)]


def cells(s):
    """non-empty cells keyed by their edges: {((l, r), ...): (content, squared error)}"""
    shape = s["shape"]
    out = {}
    for flat, (f, e) in enumerate(zip(s["freq"], s["err2"])):
        if f is None or e is None:
            out[("nan", flat)] = (f, e)
            continue
        if F(f) == 0 and F(e) == 0:
            continue
        idx, rest = [], flat
        for n in reversed(shape):
            idx.append(rest % n)
            rest //= n
        idx.reverse()
        out[tuple((s["bins"][ax][i][0], s["bins"][ax][i][1]) for ax, i in enumerate(idx))] = (F(f), F(e))
    return out


def slots(s):
    return [s["under"], s["over"], s["inner"]] if "under" in s else [s["missed"]]


def missed_of(s):
    sl = slots(s)
    return None if any(x is None for x in sl) else sum((F(x) for x in sl), F(0))


class Runner:
    def __init__(self):
        self.regs, self.outs, self.log = [], [], []

    def set(self, i, h):
        while len(self.regs) <= i:
            self.regs.append(None)
        self.regs[i] = h

    def record(self, call, ret):
        self.outs.append({"call": call, "ret": ret, "regs": [None if h is None else snap(h) for h in self.regs]})

    def attempt(self, call, f, reg=None):
        try:
            r = f()
            if reg is not None:
                self.set(reg, r)
            self.record(call, "ok")
        except Exception as e:          # a refused call: the class is recorded, never compared
            self.log.append(f"{call}: {type(e).__name__}: {e}"[:200])
            self.record(call, impl1.REFUSED)

    def call(self, name, out):
        """name: 'x+y', 'x+=y', 'sum:x,y' over register letters a=0, b=1, c=2"""
        R = {"a": 0, "b": 1, "c": 2}
        if name.startswith("sum:"):
            x, y = (R[t] for t in name[4:].split(","))
            self.attempt(name, lambda: sum([self.regs[x], self.regs[y]]), out)
        elif "+=" in name:
            x, y = (R[t] for t in name.split("+="))

            def iadd():
                t = self.regs[x]
                t += self.regs[y]
                self.regs[x] = t
            self.attempt(name, iadd)
        else:
            x, y = (R[t] for t in name.split("+"))
            self.attempt(name, lambda: self.regs[x] + self.regs[y], out)


def parse_call(name, out):
    """(x register, y register, result register, in place?)"""
    R = {"a": 0, "b": 1, "c": 2}
    if name.startswith("sum:"):
        x, y = (R[t] for t in name[4:].split(","))
        return x, y, out, False
    if "+=" in name:
        x, y = (R[t] for t in name.split("+="))
        return x, y, x, True
    x, y = (R[t] for t in name.split("+"))
    return x, y, out, False


def spoken(name):
    if name.startswith("sum:"):
        return "sum([" + name[4:].replace(",", ", ") + "])"
    return name.replace("+=", " += ") if "+=" in name else name.replace("+", " + ")


def pointwise_clauses(call, sx, sy, sr, fails, adaptive_ok):
    """the result holds, bin by bin, what both operands reported before the call; nothing is lost"""
    cx, cy, cr = cells(sx), cells(sy), cells(sr)
    if any(k[0] == "nan" for c in (cx, cy) for k in c):
        return
    exp = dict(cx)
    for key, (f, e) in cy.items():
        f0, e0 = exp.get(key, (F(0), F(0)))
        exp[key] = (f0 + f, e0 + e)
    exp = {k: v for k, v in exp.items() if v != (0, 0)}
    show = lambda v: None if v is None else (None if v[0] is None else rs(v[0]), None if v[1] is None else rs(v[1]))
    if exp != cr:
        bad = [k for k in sorted(set(exp) | set(cr), key=str) if exp.get(k) != cr.get(k)][:3]
        fails.append(f"sum_differs: {call}: bins {bad}: content / squared error {[show(cr.get(b)) for b in bad]} in the result, "
                     f"the operands reported {[show(exp.get(b)) for b in bad]} there before the call")
    same_bins = sx["bins"] == sy["bins"]
    if same_bins and sr["bins"] != sx["bins"]:
        fails.append(f"bins_differ: {call}: both operands have the bins {sx['bins']}, the result {sr['bins']}"[:500])
    mx, my, mr = missed_of(sx), missed_of(sy), missed_of(sr)
    if mx is not None and my is not None:
        if mr is None:
            if sx["keep"] and sy["keep"]:
                fails.append(f"missed_unknown: {call}: both operands report their missed weight, the result reports NaN")
        else:
            kept, entered = F(sr["total"]) + mr, F(sx["total"]) + mx + F(sy["total"]) + my
            if kept != entered:
                fails.append(f"weight_lost: {call} accounts for {kept} (contents {sr['total']} + missed {slots(sr)}) of the {entered} "
                             f"both operands held (contents {sx['total']} + missed {slots(sx)}, contents {sy['total']} + missed {slots(sy)})")
            elif same_bins and [F(p) + F(q) for p, q in zip(slots(sx), slots(sy))] != [F(z) for z in slots(sr)]:
                fails.append(f"missed_differs: {call} (equal bins): missed slots {slots(sr)}, the operands' were {slots(sx)} and {slots(sy)}")
    exp_dt = str(np.promote_types(sx["dtype"], sy["dtype"]))
    if sr["dtype"] != exp_dt:
        fails.append(f"dtype_promotion: ({call}).dtype = {sr['dtype']}, numpy promotion of {sx['dtype']} and {sy['dtype']} is {exp_dt}")


def operands_unchanged(call, prev, now, target, fails):
    names = {0: "a", 1: "b", 2: "c"}
    for i, p in enumerate(prev):
        if p is None or i == target:
            continue
        q = now[i] if i < len(now) else None
        if q is None or public(p) != public(q):
            d = [] if q is None else changed_fields(p, q)
            detail = "" if not d else f": {d[0]} {p[d[0]]} -> {q[d[0]]}"
            fails.append(f"operand_modified: {call} changed {names.get(i, 'the earlier result in register ' + str(i))} "
                         f"(not the target of the call): fields {d}{detail}"[:600])


# ======================================================================================================================
# stream:shared_memory
ENABLE_XARRAY = True
SHARE_PLANS = ["a_from_b", "a_from_b", "b_from_a", "a_from_c", "b_from_c", "both_from_c", "a_same_array", "b_same_array"]
DERIVE = ["ctor", "ctor", "ctor", "view", "freq_only", "xarray", "xarray"]
INPLACE = [["a+=b"], ["a+=b"], ["b+=a"], ["a+=b", "a+=b"], ["a+=b", "b+=a"], ["b+=a", "a+=b"]]
INPLACE_C = [["a+=c"], ["c+=a"], ["a+=b", "c+=a"], ["b+=a", "a+=c"], ["c+=b", "a+=b"]]


def _content(rng, n, isint, missed_p):
    num = (lambda hi: rs(rng.randint(0, hi))) if isint else (lambda hi: rs(rng.randint(0, 4 * hi) / 4))
    sp = {"freq": [num(6) for _ in range(n)], "err2": None if rng.random() < 0.5 else [num(9) for _ in range(n)]}
    if sum(F(x) for x in sp["freq"]) == 0:
        sp["freq"][rng.randrange(n)] = "2"
    sp["under"] = num(3) if rng.random() < missed_p else "0"
    sp["over"] = num(3) if rng.random() < missed_p else "0"
    return sp


def share_gen(rng):
    nd = rng.random() < 0.3
    d = 2 if nd else 1
    w = [rng.choice([1.0, 0.5, 2.0, 0.25]) for _ in range(d)]
    count = [rng.randint(1, 4) if nd else rng.randint(1, 6) for _ in range(d)]
    tmin = [rng.randint(-6, 6) for _ in range(d)]
    plan = rng.choice(SHARE_PLANS)
    adaptive = rng.random() < 0.4
    isint = rng.random() < 0.5
    n = 1
    for c in count:
        n *= c
    roles = {"a": None, "b": None, "c": None}
    own = lambda mp=0.3: dict(_content(rng, n, isint, mp), how="own", shift=[0] * d)

    def derived(of):
        how = rng.choice(DERIVE)
        if how == "xarray" and (nd or not ENABLE_XARRAY):
            how = "ctor"
        sp = {"how": how, "of": of, "shift": [0] * d, "under": "0", "over": "0"}
        if how != "xarray" and rng.random() < 0.3:
            sp["under"], sp["over"] = rs(rng.randint(0, 2)), rs(rng.randint(0, 2))
        return sp
    if plan == "a_from_b":
        roles["b"], roles["a"] = own(), derived("b")
    elif plan == "b_from_a":
        roles["a"], roles["b"] = own(), derived("a")
    elif plan == "a_from_c":
        roles["c"], roles["b"], roles["a"] = own(), own(), derived("c")
    elif plan == "b_from_c":
        roles["c"], roles["a"], roles["b"] = own(), own(), derived("c")
    elif plan == "both_from_c":
        roles["c"], roles["a"], roles["b"] = own(), derived("c"), derived("c")
    else:
        who, other = ("a", "b") if plan == "a_same_array" else ("b", "a")
        roles[who], roles[other] = dict(own(), how="same_array", err2=None), own()
    # the adaptive branch: one operand over another range of the same grid (no missed weight anywhere, physt refuses it there)
    if adaptive and rng.random() < 0.5:
        who = rng.choice(["a", "b"])
        if roles[who]["how"] != "xarray":
            roles[who]["shift"] = [rng.choice([-3, -2, -1, 1, 2, 3]) if rng.random() < 0.7 else 0 for _ in range(d)]
            if not any(roles[who]["shift"]):
                roles[who]["shift"][0] = 2
            for sp in roles.values():
                if sp is not None:
                    sp["under"] = sp["over"] = "0"
    if isint and not roles["a"]["how"].startswith("x") and rng.random() < 0.15:
        # a float operand against an integer target: the dtype is promoted (fresh arrays); only an own operand can differ
        for who in ("b", "a"):
            if roles[who]["how"] == "own":
                roles[who]["dtype"] = "float64"
                break
    pre = [c for c in ("a+b", "b+a", "sum:a,b", "sum:b,a") if rng.random() < 0.4]
    inplace = rng.choice(INPLACE_C if roles["c"] is not None and rng.random() < 0.6 else INPLACE)
    if rng.random() < 0.25:
        pre.append("a+b") if "a+b" not in pre else None
        inplace = list(inplace) + ["a+b"]      # the operands are read once more after the in-place addition
    src = {"nd": nd, "d": d, "w": [rs(x) for x in w], "count": count, "tmin": tmin, "adaptive": adaptive,
           "dtype": "int64" if isint else "float64", "roles": roles, "plan": plan, "calls": pre + list(inplace)}
    return share_build(src)


def share_build(src):
    roles = src["roles"]
    tags = [SHARE_STREAM, "share_plan:" + src["plan"], "nd" if src["nd"] else "1d"]
    tags += sorted({"share_via:" + sp["how"] for sp in roles.values() if sp is not None and sp["how"] != "own"})
    if src["adaptive"]:
        tags.append("share_adaptive")
    if any(sp is not None and any(sp["shift"]) for sp in roles.values()):
        tags.append("share_other_range")
    return {"kind": "histn" if src["nd"] else "hist1", "sub": "share", "ops": [{"op": "share:" + c} for c in src["calls"]],
            "tags": tags, "src": src}


def _share_make(src, sp, made):
    from physt.binnings import FixedWidthBinning
    from physt.types import Histogram1D, Histogram2D
    d = src["d"]
    ws = [float(F(x)) for x in src["w"]]
    binnings = [FixedWidthBinning(bin_width=ws[i], bin_times_min=src["tmin"][i] + sp["shift"][i], bin_count=src["count"][i],
                                  adaptive=src["adaptive"]) for i in range(d)]
    dtype = np.dtype(sp.get("dtype", src["dtype"]))
    shape = tuple(src["count"])
    missed = {"underflow": impl1.fl(sp["under"]), "overflow": impl1.fl(sp["over"])} if d == 1 else \
        {"missed": impl1.fl(sp["under"]) + impl1.fl(sp["over"])}
    cls = (lambda f, e=None, **k: Histogram1D(binnings[0], frequencies=f, errors2=e, **k)) if d == 1 else \
        (lambda f, e=None, **k: Histogram2D(binnings, frequencies=f, errors2=e, **k))
    how = sp["how"]
    if how in ("own", "same_array"):
        f = impl1.arr(sp["freq"], dtype, shape)
        if how == "same_array":
            return cls(f, f, **missed)
        e = None if sp["err2"] is None else impl1.arr(sp["err2"], dtype, shape)
        return cls(f, e, **missed)
    o = made[sp["of"]]
    if how == "xarray":
        import physt.compat.xarray  # noqa: F401
        return Histogram1D.from_xarray(o.to_xarray())
    if how == "ctor":
        return cls(o.frequencies, o.errors2, **missed)
    if how == "view":
        return cls(o.frequencies[...], o.errors2[...], **missed)
    return cls(o.frequencies, **missed)       # freq_only: errors2 = a copy of |frequencies|


def share_run_impl(case):
    src = case["src"]
    r = Runner()
    made = {}
    try:
        for who in ("c", "b", "a", "b"):       # sources first; b may be derived from a
            sp = src["roles"][who]
            if sp is None or who in made or (sp["how"] not in ("own", "same_array") and sp["of"] not in made):
                continue
            made[who] = _share_make(src, sp, made)
    except Exception as e:
        r.log.append(f"build: {type(e).__name__}: {e}"[:300])
        r.record("build", impl1.REFUSED)
        return {"outs": r.outs, "log": r.log}
    for who, i in (("a", 0), ("b", 1), ("c", 2)):
        if who in made:
            r.set(i, made[who])
    r.record("build", "ok")
    for k, c in enumerate(src["calls"]):
        r.call(c, 3 + k)
    return {"outs": r.outs, "log": r.log}


def share_oracle(case, io):
    src, outs = case["src"], io["outs"]
    if outs[0]["ret"] != "ok":
        return ["refused_valid: the operands could not be built: " + "; ".join(io["log"][:2])]
    fails = []
    for k, name in enumerate(src["calls"]):
        o, prev = outs[k + 1], outs[k]["regs"]
        x, y, t, inplace = parse_call(name, 3 + k)
        call = spoken(name)
        sx, sy = prev[x], prev[y]
        operands_unchanged(call, prev, o["regs"], t if inplace else None, fails)
        mx, my = missed_of(sx), missed_of(sy)
        if o["ret"] != "ok":
            if sx["bins"] == sy["bins"]:
                fails.append(f"refused_valid: {call} was refused although both operands have the same bins: " + "; ".join(io["log"][-2:]))
            elif sx["adaptive"] and sy["adaptive"] and mx == 0 and my == 0:
                fails.append(f"refused_valid: {call} was refused although both operands are adaptive on one grid and neither has "
                             f"missed weight: " + "; ".join(io["log"][-2:]))
            continue
        pointwise_clauses(call, sx, sy, o["regs"][t], fails, True)
    return fails[:6]


def share_shrink(case):
    src = case["src"]
    calls = src["calls"]
    for j in range(len(calls)):
        if len(calls) > 1:
            s2 = copy.deepcopy(src)
            del s2["calls"][j]
            yield share_build(s2)
    for who, sp in src["roles"].items():
        if sp is None:
            continue
        for key in ("under", "over"):
            if sp.get(key, "0") != "0":
                s2 = copy.deepcopy(src)
                s2["roles"][who][key] = "0"
                yield share_build(s2)
        if sp.get("err2") is not None:
            s2 = copy.deepcopy(src)
            s2["roles"][who]["err2"] = None
            yield share_build(s2)
        if any(sp["shift"]):
            s2 = copy.deepcopy(src)
            s2["roles"][who]["shift"] = [0] * src["d"]
            yield share_build(s2)
        if "freq" in sp:
            for j, v in enumerate(sp["freq"]):
                if v not in ("0", "1"):
                    s2 = copy.deepcopy(src)
                    s2["roles"][who]["freq"][j] = "1"
                    yield share_build(s2)


def share_neighbours(case):
    rng = Rng("C05:share-neighbours:" + case_hash(case))
    for _ in range(16):
        yield share_gen(rng)


# ======================================================================================================================
# stream:near_equal_widths
NEARW_RELS = ["0", "1/1000000000", "1/10000000", "1/250000", "1/250000", "1/100000", "1/100000", "1/1000"]
NEARW_WIDTHS = [1.0, 0.5, 0.1, 2.5, 0.25, 3.0]
NEARW_FAR = [100000, 200000, 250000, 1000000, 3000000, 10000000]


def _nearw_values(rng, w_own, t, count, w_other, n):
    """doubles in cells t .. t+count-1 of the grid of width w_own, at a relative position 0.15 .. 0.85 of their cell on that grid
    AND of the cell of the grid of width w_other they fall in (exact)"""
    wo, wx = F(w_own), F(w_other)
    vals = []
    for k in range(max(n, 2)):
        cell = t if k == 0 else t + count - 1 if k == 1 else rng.randint(t, t + count - 1)
        qs = list(range(3, 14))
        rng.shuffle(qs)
        for q in qs:
            v = float((cell + F(q, 16)) * wo)
            fv = F(v)
            ok = True
            for ww in (wo, wx):
                pos = fv / ww
                frac = pos - (pos.numerator // pos.denominator)
                ok = ok and F(3, 20) <= frac <= F(17, 20)
            if ok and (fv / wo).numerator // (fv / wo).denominator == cell:
                vals.append(rs(v))
                break
    return vals


def nearw_gen(rng):
    nd = rng.random() < 0.25
    rel = rng.choice(NEARW_RELS)
    w = rng.choice(NEARW_WIDTHS)
    w2 = float(F(w) * (1 + F(rel)))
    if rng.random() < 0.5:
        w, w2 = w2, w
    far = rng.random() < 0.75
    base = rng.choice(NEARW_FAR) * rng.choice([1, 1, -1]) + rng.randint(-50, 50) if far else rng.randint(-20, 20)
    ca = rng.randint(1, 5)
    cb = rng.choice([c for c in range(1, 7) if c != ca])
    ta = base
    tb = base + (0 if rng.random() < 0.3 else rng.choice([-7, -3, -2, -1, 1, 2, 3, 5, 9]))
    a = {"w": rs(w), "t": ta, "count": ca, "vals": _nearw_values(rng, w, ta, ca, w2, rng.choice([1, 2, 3, 5]))}
    b = {"w": rs(w2), "t": tb, "count": cb, "vals": _nearw_values(rng, w2, tb, cb, w, rng.choice([1, 2, 3, 5]))}
    for sp in (a, b):
        sp["route"] = rng.choice(["range", "range", "grown"])
        sp["ws"] = None if rng.random() < 0.6 else [rs(rng.randint(1, 3)) for _ in sp["vals"]]
    src = {"nd": nd, "rel": rel, "far": far, "a": a, "b": b, "axis": 0}
    if nd:
        src["axis"] = rng.randrange(2)
        wy = rng.choice([1.0, 0.5, 2.0])
        ty = rng.randint(-5, 5)
        src["other"] = {"w": rs(wy), "ta": ty, "ca": rng.randint(1, 3), "tb": ty + rng.choice([0, 0, -2, 1, 3]), "cb": rng.randint(1, 3)}
        for who in ("a", "b"):
            t, c = src["other"]["t" + who], src["other"]["c" + who]
            src[who]["ys"] = [rs((rng.randint(t, t + c - 1) + rng.choice([0.25, 0.5, 0.75])) * wy) for _ in src[who]["vals"]]
            src[who]["route"] = "range"
    return nearw_build(src)


def nearw_build(src):
    calls = ["a+b", "b+a", "sum:a,b", "sum:b,a", "a+=b", "b+=a"]
    tags = [NEARW_STREAM, "nearw_rel:" + src["rel"], "nearw_far" if src["far"] else "nearw_near_origin", "nd" if src["nd"] else "1d",
            "nearw_same_first_index" if src["a"]["t"] == src["b"]["t"] else "nearw_other_first_index"]
    return {"kind": "histn" if src["nd"] else "hist1", "sub": "nearw", "ops": [{"op": "nearw:" + c} for c in calls], "calls": calls,
            "tags": tags, "src": src}


def _nearw_make(src, who):
    from physt import h1, h2
    from physt.binnings import FixedWidthBinning
    sp = src[who]
    w = float(F(sp["w"]))
    vals = impl1.arr(sp["vals"])
    ws = None if sp["ws"] is None else impl1.arr(sp["ws"], np.dtype("int64"))
    fixed = lambda width, t, c: FixedWidthBinning(bin_width=width, bin_times_min=t, bin_count=c, adaptive=True)
    if src["nd"]:
        o = src["other"]
        ys = impl1.arr(sp["ys"])
        bx, by = fixed(w, sp["t"], sp["count"]), fixed(float(F(o["w"])), o["t" + who], o["c" + who])
        if src["axis"] == 0:
            return h2(vals, ys, [bx, by], weights=ws)
        return h2(ys, vals, [by, bx], weights=ws)
    if sp["route"] == "grown":
        h = h1(None, "fixed_width", bin_width=w, adaptive=True)
        h.fill_n(vals, weights=ws)
        return h
    return h1(vals, fixed(w, sp["t"], sp["count"]), weights=ws)


def nearw_run_impl(case):
    src = case["src"]
    r = Runner()
    try:
        a, b = _nearw_make(src, "a"), _nearw_make(src, "b")
    except Exception as e:
        r.log.append(f"build: {type(e).__name__}: {e}"[:300])
        r.record("build", impl1.REFUSED)
        return {"outs": r.outs, "log": r.log}
    r.set(0, a); r.set(1, b)
    r.record("build", "ok")
    a0, b0 = a.copy(), b.copy()
    for k, c in enumerate(case["calls"]):
        if "+=" in c:       # the in-place forms on copies of their own (regs 0 / 1 stay the operands)
            x, y, _, _ = parse_call(c, None)
            tgt = (a0, b0)[x]

            def iadd(tgt=tgt, y=y):
                t = tgt
                t += r.regs[y]
                return t
            r.attempt(c, iadd, 3 + k)
        else:
            r.call(c, 3 + k)
    return {"outs": r.outs, "log": r.log}


def _bin_index(edges, v):
    """index of the bin [l, r) (the last one closed) of `edges` = [[l, r], ...] containing v, or None"""
    for i, (l, r) in enumerate(edges):
        if F(l) <= v < F(r) or (i == len(edges) - 1 and v == F(r)):
            return i
    return None


def _nearw_rows(src):
    rows = []
    for who in ("a", "b"):
        sp = src[who]
        for j, v in enumerate(sp["vals"]):
            wt = F(1) if sp["ws"] is None else F(sp["ws"][j])
            if src["nd"]:
                xy = (F(v), F(sp["ys"][j])) if src["axis"] == 0 else (F(sp["ys"][j]), F(v))
            else:
                xy = (F(v),)
            rows.append((who, xy, wt))
    return rows


def nearw_oracle(case, io):
    src, outs, calls = case["src"], io["outs"], case["calls"]
    if outs[0]["ret"] != "ok":
        return ["refused_valid: the operands could not be built: " + "; ".join(io["log"][:2])]
    fails = []
    a0, b0 = outs[0]["regs"][0], outs[0]["regs"][1]
    # the operands themselves are the histograms of their data (otherwise nothing below says anything)
    rows = _nearw_rows(src)
    for who, s in (("a", a0), ("b", b0)):
        want = sum((wt for w_, _, wt in rows if w_ == who), F(0))
        if F(s["total"]) != want or missed_of(s) != 0:
            return [f"setup: operand {who} does not hold its data: total {s['total']}, missed {slots(s)}, data weight {want}"]
    if a0["shape"] == b0["shape"]:
        # (only after shrinking: the generator gives the operands different bin counts) operands of one shape go through the
        # equal-bins test with its allclose band, which far from the origin calls shifted ranges equal: not this stream's subject
        return []
    equal_width = src["a"]["w"] == src["b"]["w"]
    accepted = {}
    for k, name in enumerate(calls):
        o, prev = outs[k + 1], outs[k]["regs"]
        call = spoken(name) + (" (on a copy)" if "+=" in name else "")
        operands_unchanged(call, [prev[0], prev[1]], o["regs"], None, fails)
        if o["ret"] != "ok":
            if equal_width:
                fails.append(f"refused_valid: {call} was refused although both operands are adaptive on one grid (width {src['a']['w']}) "
                             f"and neither has missed weight: " + "; ".join(io["log"][-2:]))
            continue
        sr = o["regs"][3 + k]
        accepted[name] = sr
        # the histogram of the combined data over the RESULT's bins
        d = len(sr["bins"])
        exp, outside = {}, F(0)
        where = {}
        for who, xy, wt in rows:
            idx = tuple(_bin_index(sr["bins"][ax], xy[ax]) for ax in range(d))
            if any(i is None for i in idx):
                outside += wt
                where.setdefault(None, []).append((who, xy))
                continue
            exp[idx] = exp.get(idx, F(0)) + wt
            where.setdefault(idx, []).append((who, xy))
        got = {}
        shape = sr["shape"]
        for flat, f in enumerate(sr["freq"]):
            if f is None or F(f) != 0:
                idx, rest = [], flat
                for n in reversed(shape):
                    idx.append(rest % n)
                    rest //= n
                got[tuple(reversed(idx))] = None if f is None else F(f)
        if got != exp or outside != 0:
            bad = [i for i in sorted(set(got) | set(exp)) if got.get(i) != exp.get(i)][:3]
            edges = lambda i: [sr["bins"][ax][j] for ax, j in enumerate(i)]
            vals = lambda i: [(w_, [rs(c) for c in xy]) for w_, xy in where.get(i, [])][:3]
            msg = (f"accepted_incompatible: {call} was accepted for bin widths {src['a']['w']} and {src['b']['w']} and is not the "
                   f"histogram of the combined data over its own bins: ")
            msg += "; ".join(f"bin {edges(i)} holds {None if got.get(i) is None else rs(got[i])}, the data give "
                             f"{rs(exp.get(i, F(0)))} {vals(i)}" for i in bad)
            if outside != 0:
                msg += f"; weight {rs(outside)} of the data lies outside the result's bins {vals(None)} (missed {slots(sr)})"
            fails.append(msg[:900])
        mr = missed_of(sr)
        entered = F(a0["total"]) + F(b0["total"])
        if mr is not None and F(sr["total"]) + mr != entered:
            fails.append(f"weight_lost: {call} accounts for {rs(F(sr['total']) + mr)} of the weight {rs(entered)} both operands hold")
        if equal_width:
            pointwise_clauses(call, prev[0], prev[1], sr, fails, True)
    pairs = [("a+b", "b+a"), ("sum:a,b", "sum:b,a"), ("a+b", "sum:a,b"), ("a+b", "a+=b"), ("b+a", "b+=a")]
    for p, q in pairs:
        if p in accepted and q in accepted:
            s1, s2 = accepted[p], accepted[q]
            dd = [f for f in ("bins", "freq", "err2", "dtype") if s1[f] != s2[f]]
            if dd:
                fails.append(f"sum_differs: {spoken(p)} and {spoken(q)} were both accepted and differ in {dd}: "
                             f"{[s1[f] for f in dd]} vs {[s2[f] for f in dd]}"[:700])
    return fails[:6]


def nearw_shrink(case):
    src = case["src"]
    for who in ("a", "b"):
        sp = src[who]
        if len(sp["vals"]) > 1:
            for j in range(len(sp["vals"])):
                s2 = copy.deepcopy(src)
                for key in ("vals", "ws", "ys"):
                    if s2[who].get(key) is not None:
                        del s2[who][key][j]
                yield nearw_build(s2)
        if sp["ws"] is not None:
            s2 = copy.deepcopy(src)
            s2[who]["ws"] = None
            yield nearw_build(s2)
        if sp["route"] == "grown":
            s2 = copy.deepcopy(src)
            s2[who]["route"] = "range"
            yield nearw_build(s2)


def nearw_neighbours(case):
    rng = Rng("C05:nearw-neighbours:" + case_hash(case))
    for _ in range(16):
        yield nearw_gen(rng)


# ======================================================================================================================
def run_impl(case):
    return share_run_impl(case) if case["sub"] == "share" else nearw_run_impl(case)


def oracle(case, io):
    return share_oracle(case, io) if case["sub"] == "share" else nearw_oracle(case, io)


def shrink_candidates(case):
    return share_shrink(case) if case["sub"] == "share" else nearw_shrink(case)


def neighbours(case):
    return share_neighbours(case) if case["sub"] == "share" else nearw_neighbours(case)


def nontrivial(case, io):
    outs = io["outs"]
    return outs[0]["ret"] == "ok" and all(r is not None and F(r["total"]) > 0 for r in outs[0]["regs"][:2])

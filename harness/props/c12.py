"""C12 — derived histograms are independent of their sources."""
from __future__ import annotations

import copy
from fractions import Fraction

from .. import gen1, gennd, history1
from ..core import rs
from . import c12_future, c12_meta, coll_parts
from .base1 import Hist1Prop
from .c09 import rand_nd_op
from ..sharing import sharing

SNAP1 = ("bins", "freq", "err2", "under", "over", "inner", "dtype", "keep", "adaptive", "stats")
SNAPN = ("bins", "shape", "freq", "err2", "missed", "dtype", "keep", "names", "adaptive")
# the clauses of the HistogramCollection cases (coll_parts, shared with C05) that belong to this property
COLL_SIGS = ("not_independent", "copy_differs", "operand_modified", "refused_changed", "unusable")


def view(r, fields):
    return None if r is None else {f: r.get(f) for f in fields}


class C12(Hist1Prop):
    ID = "C12"
    N_QUICK = 400
    N_THOROUGH = 10000
    RULE = ("a source histogram (1-D static / gapped / adaptive fixed-width, or ND incl. adaptive axes) -> one derivation (copy, "
            "copy without contents, +, -, *, /, c*h, sum([h]), normalize, merge_bins, slice, mask, index array, projection, "
            "integer / slice selection, T, accumulate, partial_normalize) -> a history of 1-4 mutations (fill / fill_n incl. bin "
            "growth, += -= *= /=, set_dtype, in-place normalize / merge) applied to the source or to the derived object; "
            "after every step every other live histogram is compared with its snapshot. One case in 32: a "
            "HistogramCollection (coll_parts, as in C05): its copy() and the original are changed in turn, members "
            "snapshotted around sum / normalize_all / normalize_bins / copy / add. One case in 8 (stream:nested_meta, c12_meta; oracle only) and, "
            "enumerated, every (histogram class, derivation) pair: custom meta-data entries holding nested mutable "
            "containers (and title / name / axis_names edits) on 1-D / 2-D / 3-D / 4-D / adaptive / transformed histograms and "
            "collections before one derivation of the property's list, then in-place edits inside the nested values through "
            "the source and through the result; containers shared by identity are observed and then edited. "
            "One case in 16 (stream:opaque_meta) and, enumerated, every (class, derivation) pair once more: meta-data values that "
            "are tuples / namedtuples / frozensets holding lists or dicts (two levels) with NO plain mutable value beside them, "
            "and mixed dictionaries with dataclass / SimpleNamespace / deque / bytearray / set / ndarray values and one object "
            "under two keys; the inner object is edited in place through the wrapper on source and on result. "
            "Three cases in 32 (stream:same_future, c12_future; oracle only): adaptive fixed-width histograms created WITHOUT data "
            "(align=False / True / bin_shift; 1-D, N-d, collections; set_adaptive / keep_missed toggled; empty selections) -> copy, "
            "copy without contents, h*1, h/1, 0+h, h+empty copy, JSON, collection copy taken while still empty or after a first fill "
            "-> the same fills (not multiples of the width, both sides) on source, derived object and a twin: same bins, contents, "
            "errors2, missed, statistics, and == . "
            "non-trivial = the mutation really changed its target; distinct = op-list hash")
    FIELDS = None
    TOL = Fraction(1, 10**5)   # float32 contents after normalisation: independence, not rounding, is the subject

    def gen_case(self, rng, k, tier):
        if k % 16 == 11 or k % 32 == 1:
            # stream:same_future (c12_future; oracle only): copies of still empty adaptive histograms / collections / N-d
            # histograms / toggled flags must grow the same bins as their source (and as a twin) under the same later fills
            return c12_future.gen(rng)
        if k % 32 == 9:
            return coll_parts.gen(rng)
        if k % 16 == 3:
            return self.gen_coll_adaptive(rng)
        if k % 8 == 5:
            # nested mutable meta-data values x every derivation x every histogram class (c12_meta; oracle only)
            return c12_meta.gen(rng)
        if k % 16 == 7:
            # mutable objects hidden inside immutable wrappers (tuples / namedtuples / frozensets), dictionaries holding only
            # such values, user classes / SimpleNamespace / deque / bytearray / set / ndarray values (c12_meta; oracle only)
            return c12_meta.gen(rng, flavour="opaque")
        if rng.random() < 0.4:
            return self.gen_nd(rng)
        b, pairs, w = history1.small_bins(rng, adaptive_share=0.45)
        ops = []
        n = rng.choice([1, 3, 6])
        vs = history1.vals_near(rng, b, pairs, w, n)
        if b["t"] == "fixed":
            ops.append({"op": "empty", "out": 0, "binning": b, "keep": True})
            ops.append({"op": "fill_n", "h": 0, "vs": gen1.enc_vals([v for v in vs if v is not None and (pairs is None)]) , "ws": None})
        else:
            ops.append({"op": "construct", "out": 0, "binning": b, "data": gen1.enc_vals(vs), "weights": None, "keep": True})
        # a second operand over the same bins
        ops.append(copy.deepcopy(ops[0])); ops[-1]["out"] = 1
        if b["t"] == "fixed":
            ops.append({"op": "fill_n", "h": 1, "vs": gen1.enc_vals([0.25, 1.75]), "ws": None})
        deriv = rng.choice(["copy", "copy0", "add", "sub", "mul", "rmul", "div", "radd0", "normalize", "merge", "slice", "mask",
                            "index_array", "sum1"])
        d = {"copy": {"op": "copy", "h": 0, "out": 2}, "copy0": {"op": "copy", "h": 0, "out": 2, "with_freq": False},
             "add": {"op": "add", "a": 0, "b": 1, "out": 2}, "sub": {"op": "sub", "a": 0, "b": 1, "out": 2},
             "mul": {"op": "mul", "h": 0, "c": "2", "k": "pyint", "out": 2},
             "rmul": {"op": "mul", "h": 0, "c": "2", "k": "pyint", "out": 2, "reflected": True},
             "div": {"op": "div", "h": 0, "c": "2", "k": "pyint", "out": 2}, "radd0": {"op": "radd0", "h": 0, "out": 2},
             "sum1": {"op": "sum", "hs": [0], "out": 2},
             "normalize": {"op": "normalize", "h": 0, "out": 2}, "merge": {"op": "merge", "h": 0, "amount": 2, "out": 2},
             "slice": {"op": "slice", "h": 0, "start": rng.choice([None, 0, 1]), "stop": rng.choice([None, 2, -1]), "out": 2},
             "mask": {"op": "mask", "h": 0, "mask": None, "out": 2},
             "index_array": {"op": "index_array", "h": 0, "idx": [0], "out": 2}}[deriv]
        if deriv == "mask":
            nb = len(b["bins"]) if b["t"] == "static" else None
            if nb is None:
                d = {"op": "copy", "h": 0, "out": 2}
            else:
                d["mask"] = [True] + [rng.random() < 0.5 for _ in range(nb - 1)]
        nested = rng.random() < 0.3
        if nested:
            # a nested (mutable) custom meta-data entry on the source before the derivation: editing it INSIDE, through one of
            # the objects, is a metadata edit too
            ops.append({"op": "set_meta", "h": 0, "key": "tags", "value": ["a", {"run": 1}]})
        ops.append(d)
        for _ in range(rng.randint(1, 4)):
            tgt = rng.choice([0, 2, 2, 1])
            if nested and rng.random() < 0.5 and tgt != 1:
                ops.append({"op": "append_meta", "h": tgt, "key": "tags", "value": "b", "maybe_refused": True})
            else:
                ops.append(self.mutation1(rng, tgt, b, pairs, w))
        return {"kind": "hist1", "ops": ops, "tags": ["deriv:" + deriv] + (["nested_meta"] if nested else []), "tolerance": True}

    # ------------------------------------------------------------------ a collection over an ADAPTIVE binning
    def gen_coll_adaptive(self, rng):
        """members created one after the other over an adaptive fixed-width binning (each creation may grow the bins),
        then collection.copy(), then fills far outside into members of the copy / of the original: every member and every
        copied member is a histogram returned by a public operation, so none of them may change or lose its shape when a
        sibling, its source or its copy grows.  In the 1-D op language of the model: empty + fill_n per member, copy per
        member, then the mutations; the implementation goes through HistogramCollection.create / copy (run_coll_adaptive)."""
        w = rng.choice([1.0, 0.5, 2.0])
        b = gen1.fixed_json(w, 0, 0, adaptive=True)
        m = rng.choice([2, 2, 3])
        ops = []
        for k in range(m):
            base = rng.choice([0, 0, 4, -6, 10])
            vs = [base + rng.randint(0, 12) / 4 for _ in range(rng.choice([1, 2, 4]))]
            ops.append({"op": "empty", "out": k, "binning": b, "keep": True, "_coll": "member"})
            ops.append({"op": "fill_n", "h": k, "vs": gen1.enc_vals(vs), "ws": None, "_coll": "create", "_name": f"m{k}"})
        for k in range(m):
            ops.append({"op": "copy", "h": k, "out": m + k, "_coll": "copy", "_index": k})
        for _ in range(rng.randint(1, 4)):
            tgt = rng.randrange(2 * m)
            kind = rng.choice(["fill_far", "fill_far", "fill_n", "imul", "fill"])
            if kind == "fill_far":
                ops.append({"op": "fill", "h": tgt, "v": rs(rng.choice([17.5, -14.25, 25.0, -21.0])), "w": "2", "wk": "pyint"})
            elif kind == "fill":
                ops.append({"op": "fill", "h": tgt, "v": rs(rng.randint(0, 12) / 4), "w": "1", "wk": "pyint"})
            elif kind == "fill_n":
                ops.append({"op": "fill_n", "h": tgt, "vs": gen1.enc_vals([rng.choice([13.5, -9.5]), 1.25]), "ws": None})
            else:
                ops.append({"op": "imul", "h": tgt, "c": "3", "k": "pyint"})
        return {"kind": "hist1", "sub": "collad", "ops": ops, "tags": ["collection", "collection:adaptive", f"members:{m}"],
                "tolerance": True}

    @staticmethod
    def run_coll_adaptive(case):
        from physt.histogram_collection import HistogramCollection
        from physt.histogram1d import Histogram1D
        from .. import impl1
        s = impl1.Store()
        outs, log = [], []
        coll = copied = None
        for op in case["ops"]:
            tag = op.get("_coll")
            try:
                if tag == "member":
                    if coll is None:
                        coll = HistogramCollection(binning=impl1.mk_binning(op["binning"]))
                    # placeholder for the register until `create` fills it (keeps the op lists of both sides aligned)
                    s.set(op["out"], Histogram1D(binning=impl1.mk_binning(op["binning"])))
                    ret = "ok"
                elif tag == "create":
                    s.set(op["h"], coll.create(op["_name"], [impl1.fl(v) for v in op["vs"]]))
                    ret = "ok"
                elif tag == "copy":
                    if op["_index"] == 0:
                        copied = coll.copy()
                    s.set(op["out"], copied[op["_index"]])
                    ret = "ok"
                else:
                    ret = impl1.step(s, op, log)
            except Exception as e:
                log.append(f"{op['op']}: {type(e).__name__}: {e}"[:200])
                ret = "REFUSED"
            outs.append({"ret": ret, "regs": [None if h is None else impl1.snap1(h) for h in s.regs],
                         "_sharing": sharing(s.regs)})
        return {"outs": outs, "log": log}

    def mutation1(self, rng, tgt, b, pairs, w):
        kind = rng.choice(["fill", "fill", "fill_n", "iadd", "imul", "idiv", "set_dtype", "normalize", "merge", "isub", "fill_far"])
        if kind == "fill":
            v = history1.vals_near(rng, b, pairs, w, 1)[0]
            return {"op": "fill", "h": tgt, "v": None if v is None else rs(v), "w": "1", "wk": "pyint"}
        if kind == "fill_far":
            return {"op": "fill", "h": tgt, "v": rs(rng.choice([7.5, -6.25, 12.0])), "w": "2", "wk": "pyint"}
        if kind == "fill_n":
            vs = history1.vals_near(rng, b, pairs, w, 3) + [rng.choice([9.5, -8.5])]
            return {"op": "fill_n", "h": tgt, "vs": gen1.enc_vals(vs), "ws": None}
        if kind == "iadd":
            return {"op": "iadd", "h": tgt, "o": 1 if tgt != 1 else 0}
        if kind == "isub":
            return {"op": "isub", "h": tgt, "o": tgt}
        if kind == "imul":
            return {"op": "imul", "h": tgt, "c": "3", "k": "pyint"}
        if kind == "idiv":
            return {"op": "idiv", "h": tgt, "c": "2", "k": "pyint"}
        if kind == "set_dtype":
            return {"op": "set_dtype", "h": tgt, "dtype": rng.choice(["float64", "float32", "int32"])}
        if kind == "normalize":
            return {"op": "normalize", "h": tgt, "inplace": True}
        return {"op": "merge", "h": tgt, "amount": 2, "inplace": True}

    def gen_nd(self, rng):
        adaptive = rng.random() < 0.4
        d = rng.choice([2, 2, 2, 3])
        if adaptive:
            axes = [gen1.fixed_json(rng.choice([1.0, 0.5]), 0, 0, adaptive=True) for _ in range(d)]
            ops = [{"op": "empty", "out": 0, "axes": axes, "names": None},
                   {"op": "fill_n", "h": 0, "rows": [[rs(rng.randint(0, 8) / 4) for _ in range(d)] for _ in range(4)], "ws": None}]
        else:
            init, ax = rand_nd_op(rng, d=d)
            ops = [init]
        ops.append(copy.deepcopy(ops[0])); ops[-1]["out"] = 1
        if adaptive:
            ops.append({"op": "fill_n", "h": 1, "rows": [[rs(0.25)] * d], "ws": None})
        deriv = rng.choice(["copy", "copy0", "add", "mul", "div", "normalize", "merge", "projection", "select_int", "select_slice",
                            "getitem", "T", "accumulate", "partial_normalize", "T", "T", "projection", "select_int", "select_slice",
                            "accumulate", "getitem"])
        dd = {"copy": {"op": "copy", "h": 0, "out": 2}, "copy0": {"op": "copy", "h": 0, "out": 2, "with_freq": False},
              "add": {"op": "add", "a": 0, "b": 1, "out": 2}, "mul": {"op": "mul", "h": 0, "c": "2", "k": "pyint", "out": 2},
              "div": {"op": "div", "h": 0, "c": "2", "k": "pyint", "out": 2},
              "normalize": {"op": "normalize", "h": 0, "out": 2},
              "merge": {"op": "merge", "h": 0, "amount": 2, "axis": 0, "out": 2},
              "projection": {"op": "projection", "h": 0, "axes": sorted(rng.sample(range(d), d - 1)), "out": 2},
              "select_int": {"op": "select", "h": 0, "axis": rng.randrange(d), "index": 0, "out": 2},
              "select_slice": {"op": "select", "h": 0, "axis": rng.randrange(d), "index": {"s": [0, 1]}, "out": 2},
              "getitem": {"op": "getitem", "h": 0, "index": [{"s": [None, None]}], "out": 2},
              "T": {"op": "T", "h": 0, "out": 2}, "accumulate": {"op": "accumulate", "h": 0, "axis": 0, "out": 2},
              "partial_normalize": {"op": "partial_normalize", "h": 0, "axis": 0, "out": 2}}[deriv]
        if deriv in ("T", "partial_normalize") and d != 2:
            dd = {"op": "copy", "h": 0, "out": 2}
        nested = rng.random() < 0.25
        if nested:
            # as in the 1-D histories: a nested (mutable) custom meta-data entry on the source before the derivation
            ops.append({"op": "set_meta", "h": 0, "key": "tags", "value": ["a", {"run": 1}]})
        ops.append(dd)
        for step_no in range(rng.randint(1, 4)):
            tgt = rng.choice([0, 2, 2, 1]) if step_no else rng.choice([0, 2])
            if nested and step_no and tgt != 1 and rng.random() < 0.5:
                ops.append({"op": "append_meta", "h": tgt, "key": "tags", "value": "b", "maybe_refused": True})
                continue
            kind = rng.choice(["fill", "fill_far", "fill_n", "imul", "idiv", "set_dtype", "iadd", "merge", "normalize"]) if step_no else "fill"
            if kind in ("fill", "fill_far", "fill_n"):
                # the derived object may have fewer axes: use a marker resolved at run time
                lo = 0.25 if kind != "fill_far" else rng.choice([6.5, -5.75])
                ops.append({"op": kind if kind != "fill_far" else "fill", "h": tgt, "_coord": rs(lo), "w": "1", "wk": "pyint"})
            elif kind == "imul":
                ops.append({"op": "imul", "h": tgt, "c": "3", "k": "pyint"})
            elif kind == "idiv":
                ops.append({"op": "idiv", "h": tgt, "c": "2", "k": "pyint"})
            elif kind == "set_dtype":
                ops.append({"op": "set_dtype", "h": tgt, "dtype": rng.choice(["float64", "float32"])})
            elif kind == "iadd":
                ops.append({"op": "iadd", "h": tgt, "o": 1 if tgt != 1 else 0})
            elif kind == "normalize":
                ops.append({"op": "normalize", "h": tgt, "inplace": True})
            else:
                ops.append({"op": "merge", "h": tgt, "amount": 2, "axis": 0, "inplace": True})
        return {"kind": "histn", "ops": ops, "tags": ["nd", "deriv:" + deriv] + (["nested_meta"] if nested else []), "tolerance": True}

    # the dimension of a derived register is only known at run time: resolve the "_coord" markers step by step
    def exhaustive_cases(self, tier):
        # every (histogram class, derivation) pair of the nested meta-data stream
        return c12_meta.exhaustive(tier)

    def tags(self, case, io):
        if case.get("sub") == "samefut":
            return c12_future.tags(case, io)
        if case.get("sub") == "metanest":
            return c12_meta.tags(case, io)
        return super().tags(case, io)

    def run_impl(self, case):
        if case.get("sub") == "samefut":
            return c12_future.run_impl(case)
        if case.get("sub") == "metanest":
            return c12_meta.run_impl(case)
        if case.get("sub") == "coll":
            return coll_parts.run_impl(case)
        if case.get("sub") == "collad":
            return self.run_coll_adaptive(case)
        if case.get("kind") != "histn":
            return super().run_impl(case)
        from .. import implnd
        s = implnd.Store()
        outs, log = [], []
        resolved = []
        for op in case["ops"]:
            op = dict(op)
            if "_coord" in op:
                h = s.get(op["h"]) if op["h"] < len(s.regs) else None
                nd = h.ndim if h is not None else 1
                if op["op"] == "fill" and op["_coord"] == "1/4" and h is not None:
                    # a point inside the target's bins: the centre of the last bin of every axis
                    import numpy as _np
                    bl = [h.bins] if nd == 1 else h.bins
                    op["v"] = [rs((float(_np.asarray(b)[-1][0]) + float(_np.asarray(b)[-1][1])) / 2) if len(b) else "1/4" for b in bl]
                elif op["op"] == "fill":
                    op["v"] = [op["_coord"]] * nd
                else:
                    op["rows"] = [[op["_coord"]] * nd, [rs(1.25)] * nd]
                    op["ws"] = None
            resolved.append(op)
            if h1like(s, op):
                ret = self.step_1d_in_nd(s, op, log)
            else:
                ret = implnd.step(s, op, log)
            outs.append({"ret": ret, "regs": [None if x is None else implnd.snapn(x) for x in s.regs],
                         "_sharing": sharing(s.regs)})
        return {"outs": outs, "log": log, "resolved": resolved}

    @staticmethod
    def step_1d_in_nd(s, op, log):
        """a register that holds a Histogram1D (projection / selection down to one axis): same calls, scalar values"""
        from .. import implnd
        from ..impl1 import fl, num_of
        h = s.get(op["h"])
        try:
            if op["op"] == "fill":
                h.fill(fl(op["v"][0]), num_of(op["w"], op["wk"]))
                return "ok1d"
            if op["op"] == "fill_n":
                h.fill_n([fl(r[0]) for r in op["rows"]])
                return "ok"
            if op["op"] == "merge":
                h.merge_bins(op["amount"], inplace=True)
                return "ok"
        except Exception as e:
            log.append(f"{op['op']}: {type(e).__name__}: {e}"[:200])
            return "REFUSED"
        return implnd.step(s, op, log)

    def model_case(self, case, io):
        if case.get("sub") == "samefut":
            return None        # the `align` flag of a still empty grid is not a state of the model's binnings: oracle only
        if case.get("sub") == "metanest":
            return None        # the model's histograms carry no meta-data values: oracle only
        if case.get("sub") == "coll":
            return coll_parts.model_case(case, io)
        if case.get("kind") == "histn":
            if any(r is not None and r["_class"] == "Histogram1D" for o in io["outs"] for r in o["regs"]):
                return None    # a 1-D result inside an ND history: oracle only (the ND model has no under/overflow slots)
            c = dict(case)
            c["ops"] = io["resolved"]
            return c
        return case

    @staticmethod
    def heap_differences(io):
        """the heap model (Theorems/C12_Heap.lean) keeps all live histograms separated: mutable components that two live
        objects of the implementation share are a difference between model and implementation"""
        d = []
        outs = io["outs"] if isinstance(io.get("outs"), list) else []
        for k, o in enumerate(outs):
            for i, j, what in (o.get("_sharing") or []) if isinstance(o, dict) else []:
                d.append(f"heap: after step {k} registers {i} and {j} share {what} (Sep of the heap model: no two live histograms "
                         f"share a mutable cell)")
            if len(d) > 3:
                break
        return d

    def diff(self, case, model_ok, io):
        hd = self.heap_differences(io)
        if hd:
            return hd
        if case.get("sub") == "coll":
            # statistics of arbitrary doubles carry rounding the exact model does not have; they are C14's subject, and
            # the oracle compares them between snapshots of the same object (exactly)
            return coll_parts.diff(case, model_ok, io, coll_parts.ALL_FIELDS - {"stats"}, self.TOL)
        if case.get("kind") == "histn":
            # `fill` return values of 1-D registers are not modelled in the ND language
            import copy as _c
            m = _c.deepcopy(model_ok)
            for a, b in zip(m, io["outs"]):
                if b["ret"] == "ok1d":
                    a["ret"] = "ok1d"
            return super().diff(case, m, io)
        return super().diff(case, model_ok, io)

    def neighbours(self, case):
        """after a difference: the same history followed by one in-place operation on each register in turn -- if two objects
        share a mutable cell, writing through one of them shows in the other"""
        if case.get("sub") in ("coll", "metanest", "samefut"):
            return
        ops = case["ops"]
        nreg = 1 + max([o.get("out", 0) for o in ops] + [o.get("h", 0) for o in ops])
        nd = case.get("kind") == "histn"
        # a nested meta-data container shared by identity: an edit inside it through each register in turn
        for key in sorted({o["key"] for o in ops if o["op"] == "set_meta"}):
            for r in range(nreg):
                c = copy.deepcopy(case)
                c["ops"].append({"op": "append_meta", "h": r, "key": key, "value": "nb", "maybe_refused": True})
                yield c
        for r in range(nreg):
            for extra in ("fill_in", "fill_far", "imul", "fill_n", "adaptive_fill_far"):
                c = copy.deepcopy(case)
                if extra == "adaptive_fill_far":
                    # a shared fixed-width binning that is not adaptive yet: switch adaptivity on through one object, then grow it
                    if nd:
                        for ax in (None, 0, 1, 2):
                            c2 = copy.deepcopy(c)
                            c2["ops"].append({"op": "set_adaptive", "h": r, "value": True, "axis": ax, "maybe_refused": True})
                            c2["ops"].append({"op": "fill", "h": r, "_coord": "27/2", "w": "1", "wk": "pyint", "maybe_refused": True})
                            yield c2
                    else:
                        c["ops"].append({"op": "set_adaptive", "h": r, "value": True, "maybe_refused": True})
                        c["ops"].append({"op": "fill", "h": r, "v": "35/2", "w": "2", "wk": "pyint"})
                        yield c
                    continue
                if nd:
                    if extra == "imul":
                        c["ops"].append({"op": "imul", "h": r, "c": "3", "k": "pyint"})
                    elif extra == "fill_n":
                        c["ops"].append({"op": "fill_n", "h": r, "_coord": "1/4", "w": "1", "wk": "pyint"})
                    else:
                        c["ops"].append({"op": "fill", "h": r, "_coord": "1/4" if extra == "fill_in" else "13/2", "w": "1", "wk": "pyint"})
                else:
                    if extra == "imul":
                        c["ops"].append({"op": "imul", "h": r, "c": "3", "k": "pyint"})
                    elif extra == "fill_n":
                        c["ops"].append({"op": "fill_n", "h": r, "vs": ["1/4", "5/4", "19/2"], "ws": None})
                    else:
                        c["ops"].append({"op": "fill", "h": r, "v": "1/4" if extra == "fill_in" else "35/2", "w": "2", "wk": "pyint"})
                yield c

    def shrink_candidates(self, case):
        if case.get("sub") == "samefut":
            yield from c12_future.shrink_candidates(case)
            return
        if case.get("sub") == "metanest":
            yield from c12_meta.shrink_candidates(case)
            return
        if case.get("sub") == "coll":
            yield from coll_parts.shrink_candidates(case)
            return
        ops = case["ops"]
        if case.get("sub") == "collad":
            first_mut = max(i for i, o in enumerate(ops) if o.get("_coll")) + 1
            for k in range(len(ops) - 1, first_mut - 1, -1):
                c = copy.deepcopy(case)
                del c["ops"][k]
                yield c
            return
        first_mut = next(i for i, o in enumerate(ops) if o.get("out") == 2) + 1
        for k in range(len(ops) - 1, first_mut - 1, -1):
            c = copy.deepcopy(case)
            del c["ops"][k]
            yield c

    def oracle(self, case, io):
        if case.get("sub") == "samefut":
            return c12_future.oracle(case, io)
        if case.get("sub") == "metanest":
            return c12_meta.oracle(case, io)
        if case.get("sub") == "coll":
            return coll_parts.oracle(case, io, only=COLL_SIGS)
        outs = io["outs"]
        ops = io.get("resolved", case["ops"])
        nd = case.get("kind") == "histn"
        fields = SNAPN if nd else SNAP1
        fails = []
        for k, op in enumerate(ops):
            if k == 0:
                continue
            before, after = outs[k - 1]["regs"], outs[k]["regs"]
            writes = {op.get("out")} if "out" in op and op["op"] not in ("merge", "normalize") else set()
            if op["op"] in ("merge", "normalize", "partial_normalize"):
                writes = {op["h"]} if op.get("inplace") else {op.get("out")}
            if op["op"] in ("fill", "fill_n", "iadd", "isub", "imul", "idiv", "set_dtype", "set_adaptive", "set_meta", "append_meta"):
                writes = {op["h"]}
            for i, (x, y) in enumerate(zip(before, after)):
                if i in writes or x is None or y is None:
                    continue
                vx, vy = view(x, fields), view(y, fields)
                if vx != vy:
                    ch = [f for f in fields if vx[f] != vy[f]]
                    fails.append(f"not_independent: step {k} ({op['op']} on register {op.get('h', op.get('a'))}) changed register {i}: fields {ch}")
                elif x.get("_meta") != y.get("_meta"):
                    fails.append(f"not_independent: step {k} ({op['op']} on register {op.get('h', op.get('a'))}) changed the meta data of "
                                 f"register {i}: {x.get('_meta')} -> {y.get('_meta')}")
            for i, y in enumerate(after):
                if y is not None and not y["_shape_ok"]:
                    fails.append(f"illformed: register {i} has inconsistent shapes after step {k} ({op['op']})")
            # copy() == original
            if op["op"] == "copy" and op.get("with_freq", True) and outs[k]["ret"] == "ok":
                a, b = view(after[op["h"]], fields), view(after[op["out"]], fields)
                if a != b:
                    fails.append(f"copy_differs: copy() differs from the original in {[f for f in fields if a[f] != b[f]]}")
            if op["op"] == "copy" and not op.get("with_freq", True) and outs[k]["ret"] == "ok":
                c0 = after[op["out"]]
                if any(Fraction(x) != 0 for x in c0["freq"]) or c0["bins"] != after[op["h"]]["bins"]:
                    fails.append("empty_copy: copy(include_frequencies=False) is not empty over the same bins")
            if outs[k]["ret"] == "REFUSED" and op["op"] in ("fill", "fill_n") and op["h"] < len(after) and after[op["h"]] is not None:
                fails.append(f"unusable: {op['op']} on register {op['h']} raised: " + "; ".join(io["log"][-1:]))
            if len(fails) > 5:
                break
        return fails[:6]

    def nontrivial(self, case, io):
        if case.get("sub") == "samefut":
            return c12_future.nontrivial(case, io)
        if case.get("sub") == "metanest":
            return c12_meta.nontrivial(case, io)
        if case.get("sub") == "coll":
            return coll_parts.mutation_changed_target(case, io)
        outs = io["outs"]
        if case.get("sub") == "collad":
            first_mut = max(i for i, o in enumerate(case["ops"]) if o.get("_coll")) + 1
            return any(outs[k]["regs"] != outs[k - 1]["regs"] for k in range(first_mut, len(outs)))
        first_mut = next((i for i, o in enumerate(case["ops"]) if o.get("out") == 2), 0) + 1
        return any(outs[k]["regs"] != outs[k - 1]["regs"] for k in range(first_mut, len(outs)))


def h1like(s, op):
    from physt.histogram1d import Histogram1D
    i = op.get("h")
    return i is not None and i < len(s.regs) and isinstance(s.regs[i], Histogram1D) and op["op"] in ("fill", "fill_n", "merge")


PROP = C12()

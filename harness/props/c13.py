"""C13 — content dtype is consistent and never loses information (1-D histories; ND in c13nd)."""
from __future__ import annotations

import copy
import warnings
from fractions import Fraction

import numpy as np

from .. import history1
from ..core import run_model
from .base1 import Hist1Prop
from .c18 import wellformed

HAVE_F128 = hasattr(np, "float128")
DT = [d for d in history1.DTYPES if d != "float128" or HAVE_F128]


def rng_axis(case, x) -> int:
    """a deterministic axis choice for N-d steps (depends on the case only)"""
    return (len(case["rows"]) + len(case["steps"])) % x.ndim


def np_kind(k: str) -> np.dtype:
    return np.dtype({"pyint": "int64", "pyfloat": "float64"}.get(k, k))


class C13(Hist1Prop):
    ID = "C13"
    N_QUICK = 500
    N_THOROUGH = 15000
    RULE = ("random histories over all seven dtypes: h1() with dtype= / int or float weights, Histogram1D from arrays of each "
            "dtype (also values near the int16 / float16 limits), fill (python / numpy int / float weights), fill_n (int16..64, "
            "float32/64 weights), + - between histograms of every dtype pair, * / by python and numpy scalars, normalize, "
            "merge, explicit set_dtype / dtype= to every dtype (accepted or refused), copy, slice; and the complete 7x7 "
            "promote_types / can_cast tables of the model compared with numpy (exhaustive). non-trivial = the dtype of some "
            "histogram changes during the history; distinct = op-list hash")
    FIELDS = {"dtype", "keep"}
    EXTRA_TRUST = ["numpy.promote_types / numpy.can_cast are the reference for the model's two 7x7 tables (compared exhaustively each run)"]

    def gen_case(self, rng, k, tier):
        if k % 12 == 5:
            return self.gen_nd(rng)
        if k % 5 == 2:
            # the dtype machine (Model/DTypeMachine.lean, Theorems/C13_Machine.lean): a random history on real 1-D / adaptive
            # / 2-D histograms; the machine must predict dtype, frequencies.dtype, errors2.dtype (and the type of the missed
            # counts) after every operation
            return {"kind": "dtm", "seed": rng.getrandbits(31), "ops": [], "tags": ["dtm"]}
        ops, tags = history1.history(rng, nops=(2, 8), invalid_share=0.15, dtype_focus=True)
        if not HAVE_F128:
            for o in ops:
                if o.get("dtype") == "float128":
                    o["dtype"] = "float64"
        return {"kind": "hist1", "ops": ops, "tags": tags, "tolerance": True}

    # ------------------------------------------------------------------ N-d: dtype of construction / arithmetic
    def gen_nd(self, rng):
        d = rng.choice([2, 2, 3])
        n = rng.choice([0, 1, 4, 9])
        rows = [[rng.randint(0, 7) / 2 for _ in range(d)] for _ in range(n)]
        wk = rng.choice(["none", "int32", "int64", "float32", "float64"])
        ws = None if wk == "none" else [rng.randint(0, 6) if wk.startswith("int") else rng.randint(0, 24) / 4 for _ in range(n)]
        dt = rng.choice([None, None, "int16", "int32", "int64", "float32", "float64"])
        ops = [rng.choice(["mul_int", "mul_float", "div", "normalize", "add_int", "add_float", "projection",
                           "fill_pyint", "fill_pyfloat", "fill_float32", "fill_float16", "fill_int32", "fill_n_int", "fill_n_float32",
                           "fill_n_float64", "accumulate", "accumulate", "set_freq_float", "set_freq_int", "set_err2_float",
                           "div_longdouble", "idiv_longdouble", "mul_float32"]) for _ in range(rng.randint(0, 3))]
        return {"kind": "nd_dtype", "d": d, "rows": rows, "wk": wk, "ws": ws, "dtype": dt, "steps": ops,
                "ops": [], "tags": ["nd", f"d:{d}", f"weights:{wk}", f"dtype:{dt}"]}

    def run_nd(self, case):
        from physt import h
        d, rows = case["d"], np.array(case["rows"], dtype=float).reshape(len(case["rows"]), case["d"])
        ws = None if case["ws"] is None else np.array(case["ws"], dtype=np.dtype(case["wk"]))
        edges = [np.array([0.0, 1.0, 2.0, 4.0])] * d
        kw = {} if case["dtype"] is None else {"dtype": np.dtype(case["dtype"])}
        log, out = [], {"steps": []}

        def snap(x):
            return {"dtype": str(x.dtype), "fdt": str(x.frequencies.dtype), "edt": str(x.errors2.dtype),
                    "freq": [float(v) for v in x.frequencies.ravel()], "err2": [float(v) for v in x.errors2.ravel()]}
        try:
            with warnings.catch_warnings():
                warnings.simplefilter("ignore")
                x = h(rows, edges, weights=ws, **kw)
        except Exception as e:
            return {"outs": {"refused": True}, "log": [f"{type(e).__name__}: {e}"[:160]]}
        out["init"] = snap(x)
        other_i = h(np.array([[0.5] * d]), edges)
        other_f = h(np.array([[0.5] * d]), edges, weights=np.array([1.5]))
        for st in case["steps"]:
            before = snap(x)
            try:
                with warnings.catch_warnings():
                    warnings.simplefilter("ignore")
                    if st == "mul_int":
                        x = x * 2
                    elif st == "mul_float":
                        x = x * 1.5
                    elif st == "div":
                        x = x / 2
                    elif st == "normalize":
                        x = x.normalize()
                    elif st in ("add_int", "add_float") and x.ndim != d:
                        continue          # after a projection the operand no longer has the dimension of `other`
                    elif st == "add_int":
                        x = x + other_i
                    elif st == "add_float":
                        x = x + other_f
                    elif st.startswith("fill"):
                        pt = [0.5] * x.ndim
                        if x.ndim == 1:
                            pt = 0.5
                        cell = (0,) * x.ndim
                        f0 = float(x.frequencies[cell])
                        if st.startswith("fill_n"):
                            wdt = {"fill_n_int": np.int64, "fill_n_float32": np.float32, "fill_n_float64": np.float64}[st]
                            wv = np.array([1 if st == "fill_n_int" else 0.5, 2 if st == "fill_n_int" else 0.25], dtype=wdt)
                            x.fill_n(np.array([pt, pt]) if x.ndim > 1 else np.array([pt, pt]), weights=wv)
                            added = float(wv.sum())
                        else:
                            wv = {"fill_pyint": 2, "fill_pyfloat": 0.5, "fill_float32": np.float32(0.5), "fill_float16": np.float16(0.5),
                                  "fill_int32": np.int32(3)}[st]
                            x.fill(pt, weight=wv)
                            added = float(wv)
                        out["steps"].append({"op": st, "ret": "ok", "before": before, "after": snap(x), "cell0": [f0, float(x.frequencies[cell]), added]})
                        continue
                    elif st == "accumulate" and x.ndim < 2:
                        continue
                    elif st == "accumulate":
                        x = x.accumulate(rng_axis(case, x))
                    elif st == "set_freq_float":
                        x.frequencies = x.frequencies / 8
                    elif st == "set_freq_int":
                        x.frequencies = np.ones(x.shape, dtype=np.int64)
                    elif st == "set_err2_float":
                        x.errors2 = x.errors2 * 0.25
                    elif st == "div_longdouble":
                        x = x / np.longdouble(2)
                    elif st == "idiv_longdouble":
                        x /= np.longdouble(2)
                    elif st == "mul_float32":
                        x = x * np.float32(1.5)
                    elif st == "projection" and x.ndim < 2:
                        continue          # a 1-D projection has no further projections
                    elif st == "projection":
                        x = x.projection(0)
                out["steps"].append({"op": st, "ret": "ok", "before": before, "after": snap(x), "other": str((other_i if st == "add_int" else other_f).dtype)})
            except Exception as e:
                log.append(f"{st}: {type(e).__name__}: {e}"[:160])
                out["steps"].append({"op": st, "ret": "REFUSED", "before": before, "after": snap(x)})
        return {"outs": out, "log": log}

    def oracle_nd(self, case, io):
        o, fails = io["outs"], []
        wfloat = case["wk"].startswith("float")
        want_int = case["dtype"] is not None and case["dtype"].startswith("int")
        if o.get("refused"):
            if not (want_int and wfloat):
                fails.append("refused_valid: N-d construction refused: " + "; ".join(io["log"][:1]))
            return fails
        if want_int and wfloat:
            return ["accepted_invalid: an integer N-d histogram was requested with float weights and accepted"]

        def consistent(sn, where):
            if not (sn["dtype"] == sn["fdt"] == sn["edt"]):
                fails.append(f"inconsistent: {where}: dtype {sn['dtype']} over {sn['fdt']} / {sn['edt']} arrays")
        ini = o["init"]
        consistent(ini, "after construction")
        exp = case["dtype"] or ("int64" if case["wk"] == "none" else case["wk"])
        if ini["dtype"] != exp:
            fails.append(f"construct_dtype: h(..., weights {case['wk']}, dtype={case['dtype']}) has dtype {ini['dtype']}, expected {exp}")
        wsum = len(case["rows"]) if case["ws"] is None else sum(case["ws"])
        for stp in o["steps"]:
            b, a = stp["before"], stp["after"]
            consistent(a, "after " + stp["op"])
            if stp["ret"] != "ok":
                if stp["op"] == "normalize" and sum(b["freq"]) == 0:
                    continue
                fails.append(f"refused_valid: N-d {stp['op']} refused: " + "; ".join(io["log"][:1]))
                continue
            kb, ka = np.dtype(b["dtype"]).kind, np.dtype(a["dtype"]).kind
            if stp["op"].startswith("fill"):
                f0, f1, added = stp["cell0"]
                if abs(f1 - (f0 + added)) > 1e-6 * max(1, abs(f1)):
                    fails.append(f"truncated: N-d {stp['op']} on {b['dtype']}: content {f0} + weight {added} became {f1} (dtype {a['dtype']})")
                if stp["op"] in ("fill_pyint", "fill_int32", "fill_n_int") and kb == "i" and ka != "i":
                    fails.append(f"not_integral: N-d {stp['op']} on {b['dtype']} gave {a['dtype']} (integer weights must keep an integer histogram)")
                continue
            if stp["op"] in ("mul_float", "div", "normalize", "add_float", "set_freq_float", "set_err2_float", "div_longdouble",
                             "idiv_longdouble", "mul_float32") and ka != "f":
                fails.append(f"truncated: N-d {stp['op']} on {b['dtype']} gave {a['dtype']} (must be float)")
            if stp["op"] in ("mul_int", "add_int", "projection", "accumulate", "set_freq_int") and kb == "i" and ka != "i":
                fails.append(f"not_integral: N-d {stp['op']} on {b['dtype']} gave {a['dtype']} (must stay integer)")
            if stp["op"] in ("add_int", "add_float") and a["dtype"] != str(np.promote_types(b["dtype"], stp["other"])):
                fails.append(f"promotion: {b['dtype']} + {stp['other']} gave {a['dtype']}, numpy promotes to {np.promote_types(b['dtype'], stp['other'])}")
            if stp["op"] == "mul_float" and any(abs(y - 1.5 * x) > 1e-6 * max(1, abs(y)) for x, y in zip(b["freq"], a["freq"])):
                fails.append(f"truncated: N-d * 1.5 turned {b['freq']} into {a['freq']}")
            if stp["op"] == "set_freq_float" and any(abs(y - x / 8) > 1e-6 * max(1, abs(y)) for x, y in zip(b["freq"], a["freq"])):
                fails.append(f"truncated: N-d `h.frequencies = h.frequencies / 8` turned {b['freq']} into {a['freq']}")
            if stp["op"] == "div" and any(abs(y - x / 2) > 1e-6 * max(1, abs(y)) for x, y in zip(b["freq"], a["freq"])):
                fails.append(f"truncated: N-d / 2 turned {b['freq']} into {a['freq']}")
        return fails[:6]

    def exhaustive_cases(self, tier):
        # one pseudo-case: the table comparison (handled in run_impl / oracle)
        yield {"kind": "tables", "ops": [], "tags": ["tables"]}

    def shrink_candidates(self, case):
        ops = case["ops"]
        for k in range(len(ops) - 1, 2, -1):
            c = copy.deepcopy(case)
            del c["ops"][k]
            yield c

    def run_impl(self, case):
        if case["kind"] == "tables":
            t = {"promote": {a: {b: str(np.promote_types(a, b)) for b in DT} for a in DT},
                 "can_cast": {a: {b: bool(np.can_cast(np.dtype(a), np.dtype(b))) for b in DT} for a in DT}}
            return {"outs": t, "log": []}
        if case["kind"] == "nd_dtype":
            return self.run_nd(case)
        if case["kind"] == "dtm":
            from .. import dtm_gen
            hist = dtm_gen.run_history(case["seed"])
            return {"outs": {"lines": [l for l, st in hist if st is not None], "states": [st for l, st in hist if st is not None],
                             "notes": [l for l, st in hist if st is None]}, "log": [l for l, st in hist if st is None][:4]}
        from .c18 import PROP as C18P
        return C18P.run_impl(case)

    def diff(self, case, model_ok, io):
        if case["kind"] == "dtm":
            got, want = io["outs"]["states"], list(model_ok)
            d = []
            if len(got) != len(want):
                d.append(f"dtm: {len(want)} model states for {len(got)} lines")
            for i, (a, b) in enumerate(zip(want, got)):
                if a != b:
                    d.append(f"dtm line {i} `{io['outs']['lines'][i]}`: model [{a}] impl [{b}]")
            return d[:6]
        if case["kind"] == "tables":
            d = []
            for a in DT:
                for b in DT:
                    if model_ok["promote"][a][b] != io["outs"]["promote"][a][b]:
                        d.append(f"promote({a},{b}): model {model_ok['promote'][a][b]} numpy {io['outs']['promote'][a][b]}")
                    if model_ok["can_cast"][a][b] != io["outs"]["can_cast"][a][b]:
                        d.append(f"can_cast({a},{b}): model {model_ok['can_cast'][a][b]} numpy {io['outs']['can_cast'][a][b]}")
            return d
        return super().diff(case, model_ok, io)

    def oracle(self, case, io):
        if case["kind"] == "tables":
            return []
        if case["kind"] == "nd_dtype":
            return self.oracle_nd(case, io)
        if case["kind"] == "dtm":
            fails = []
            for line, st in zip(io["outs"]["lines"], io["outs"]["states"]):
                t = st.split()
                if not (t[0] == t[1] == t[2]):
                    fails.append(f"inconsistent: after `{line}`: dtype {t[0]} over {t[1]} / {t[2]} arrays")
            return fails[:4]
        outs, ops = io["outs"], case["ops"]
        fails = []
        for k, op in enumerate(ops):
            regs = outs[k]["regs"]
            ret = outs[k]["ret"]
            before = outs[k - 1]["regs"] if k else []
            for i, r in enumerate(regs):
                if r is None:
                    continue
                for w in wellformed(r):
                    if w.startswith("dtype_mismatch") or w.startswith("negative_err2"):
                        fails.append(f"inconsistent: after step {k} ({op['op']}) register {i}: {w}")

            def B(i):
                return before[i] if i < len(before) else None

            def A(i):
                return regs[i] if i < len(regs) else None
            name = op["op"]
            if name == "construct" :
                wfloat = op.get("weights") is not None and (op.get("wkind") or "").startswith("float")
                if op.get("dtype") and op["dtype"].startswith("int") and wfloat:
                    if ret != "REFUSED":
                        fails.append("accepted_invalid: integer histogram requested with float weights was accepted")
                elif ret == "ok":
                    exp = op.get("dtype") or (op.get("wkind") if op.get("weights") is not None else "int64")
                    if A(op["out"])["dtype"] != exp:
                        fails.append(f"construct_dtype: h1(dtype={op.get('dtype')}, weights {op.get('wkind')}) has dtype {A(op['out'])['dtype']}, expected {exp}")
            if ret == "REFUSED" or name in ("construct", "empty", "of_arrays", "item", "invalid"):
                if name == "set_dtype" and ret == "REFUSED":
                    b = B(op["h"])
                    if b is not None:
                        finite = not any(x in ("inf", "-inf", None) for x in b["freq"] + b["err2"])
                        if finite and self.set_dtype_ok(b, op["dtype"]):
                            fails.append(f"refused_valid: set_dtype({op['dtype']}) refused although every value fits: freq {b['freq']} err2 {b['err2']}")
                        if A(op["h"]) != b:
                            fails.append("refused_changed: refused dtype change modified the histogram")
                continue
            h = op.get("h", op.get("a"))
            b = B(h)
            if b is None:
                continue
            tgt = op.get("out", h) if name in ("add", "sub", "mul", "div", "copy", "slice") or (name in ("normalize", "merge") and not op.get("inplace")) else h
            a = A(tgt)
            if a is None:
                continue
            old, new = np.dtype(b["dtype"]), np.dtype(a["dtype"])
            if name == "set_dtype":
                okd = self.set_dtype_ok(b, op["dtype"]) if not any(x in ("inf", "-inf", None) for x in b["freq"] + b["err2"]) else True
                if not okd:
                    fails.append(f"accepted_invalid: set_dtype({op['dtype']}) accepted although values do not fit: freq {b['freq']} err2 {b['err2']}")
                    continue
            if any(x in ("inf", "-inf", None) for r in (a, b) for x in r["freq"] + r["err2"]):
                continue
            if name == "fill":
                if op["v"] is None:
                    exp = old
                else:
                    exp = np.promote_types(old, np_kind(op["wk"]))
                if new != exp:
                    fails.append(f"fill_dtype: fill with a {op['wk']} weight turned {old} into {new}, expected {exp}")
            elif name == "fill_n":
                exp = old if op.get("ws") is None else np.promote_types(old, np.dtype(op["wkind"]))
                if new != exp:
                    fails.append(f"fill_n_dtype: fill_n with {op.get('wkind') if op.get('ws') is not None else 'no'} weights turned {old} into {new}, expected {exp}")
                # no wrap-around / truncation: contents grew by the batch (static bins only)
                nice = all(Fraction(x).denominator <= 1024 and abs(Fraction(x)) < 2**20 for x in b["freq"])
                if b["bins"] == a["bins"] and (new.kind == "i" or (new.kind == "f" and nice)):
                    pts = [(Fraction(v), Fraction(op["ws"][j]) if op.get("ws") is not None else Fraction(1))
                           for j, v in enumerate(op["vs"]) if v is not None]
                    nb = len(b["bins"])
                    for i, (l, r) in enumerate(b["bins"]):
                        l, r = Fraction(l), Fraction(r)
                        add = sum((w for v, w in pts if l <= v and (v < r or (i == nb - 1 and v == r))), Fraction(0))
                        if Fraction(a["freq"][i]) != Fraction(b["freq"][i]) + add and new.name not in ("float16", "float32"):
                            fails.append(f"lossy: bin {i} went from {b['freq'][i]} to {a['freq'][i]} after adding weight {add} ({old} -> {new})")
                            break
            elif name in ("iadd", "add", "isub", "sub"):
                o = B(op.get("o", op.get("b")))
                if o is not None:
                    exp = np.promote_types(old, np.dtype(o["dtype"]))
                    if new != exp:
                        fails.append(f"promotion: {old} {name} {o['dtype']} gives {new}, numpy promotion is {exp}")
            elif name in ("imul", "mul"):
                if np_kind(op["k"]).kind == "f" and new.kind != "f":
                    fails.append(f"mul_truncates: multiplying {old} by a float factor gives {new}")
                if new != np.promote_types(old, np_kind(op["k"])):
                    fails.append(f"mul_dtype: {old} * {op['k']} scalar gives {new}, expected {np.promote_types(old, np_kind(op['k']))}")
            elif name in ("idiv", "div", "normalize"):
                if new.kind != "f":
                    fails.append(f"div_truncates: {name} of {old} gives {new}")
            elif name == "set_dtype":
                okd = self.set_dtype_ok(b, op["dtype"])
                if not okd:
                    fails.append(f"accepted_invalid: set_dtype({op['dtype']}) accepted although values do not fit: freq {b['freq']} err2 {b['err2']}")
                elif new != np.dtype(op["dtype"]):
                    fails.append(f"set_dtype: dtype is {new} after set_dtype({op['dtype']})")
                elif new.kind == "i" or new.itemsize >= old.itemsize:
                    if [Fraction(x) for x in a["freq"]] != [Fraction(x) for x in b["freq"]] or [Fraction(x) for x in a["err2"]] != [Fraction(x) for x in b["err2"]]:
                        fails.append(f"lossy: values changed by set_dtype({op['dtype']}): {b['freq']} -> {a['freq']}")
            elif name in ("copy", "slice", "merge"):
                if new != old:
                    fails.append(f"{name}_dtype: {name} changed the dtype {old} -> {new}")
            if len(fails) > 6:
                break
        return fails[:6]

    @staticmethod
    def set_dtype_ok(snap, target: str) -> bool:
        old, new = np.dtype(snap["dtype"]), np.dtype(target)
        if old == new or np.can_cast(old, new):
            return True
        vals = [Fraction(x) for x in snap["freq"] + snap["err2"]]
        if new.kind == "i":
            if old.kind == "f" and any(v.denominator != 1 for v in vals):
                return False
            info = np.iinfo(new)
            return all(info.min <= v <= info.max for v in vals)
        info = np.finfo(new)
        return all(Fraction(float(info.min)) <= v <= Fraction(float(info.max)) for v in vals)

    def model_case(self, case, io):
        if case["kind"] == "nd_dtype":
            return None          # oracle only (the N-d dtype rules are those of the shared base class)
        if case["kind"] == "dtm":
            return {"kind": "dtm", "lines": io["outs"]["lines"]}
        return case

    def tags(self, case, io):
        if case["kind"] == "tables":
            return ["tables"]
        if case["kind"] == "nd_dtype":
            return list(case["tags"]) + [f"step:{s}" for s in case["steps"]]
        if case["kind"] == "dtm":
            return ["dtm"] + sorted({"dtm:" + l.split()[0] for l in io["outs"]["lines"]})
        return super().tags(case, io)

    def nontrivial(self, case, io):
        if case["kind"] == "tables":
            return True
        if case["kind"] == "nd_dtype":
            return len(case["rows"]) > 0
        if case["kind"] == "dtm":
            return len({st.split()[0] for st in io["outs"]["states"]}) > 1
        seen = {}
        for o in io["outs"]:
            for i, r in enumerate(o["regs"]):
                if r is not None:
                    seen.setdefault(i, set()).add(r["dtype"])
        return any(len(v) > 1 for v in seen.values())


PROP = C13()

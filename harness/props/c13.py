"""C13 — content dtype is consistent and never loses information (1-D histories; ND in c13nd)."""
from __future__ import annotations

import copy
import math
import warnings
from fractions import Fraction

import numpy as np

from .. import history1
from ..core import run_model
from .base1 import Hist1Prop
from .c18 import wellformed

HAVE_F128 = hasattr(np, "float128")
DT = [d for d in history1.DTYPES if d != "float128" or HAVE_F128]


def rng_axis(case, x) -> int:
    """a deterministic axis choice for N-d steps (depends on the case only)"""
    return (len(case["rows"]) + len(case["steps"])) % x.ndim


def np_kind(k: str) -> np.dtype:
    return np.dtype({"pyint": "int64", "pyfloat": "float64"}.get(k, k))


# ---------------------------------------------------------------------------------------------------------------------
# stream `nd_narrow`: N-d histograms of a NARROW content type meeting operands of a wider type in the in-place paths
# (fill_n(weights=...), fill(weight=...), += / + of a histogram, *= / * by a scalar).  Helpers of that stream.

NDN_EDGES = [0.0, 1.0, 2.0]                     # every axis: the two cells [0, 1) and [1, 2]
NDN_CLASSES = {"h2": 2, "h3": 3, "h": None, "Histogram2D": 2, "HistogramND": None, "PolarHistogram": 2,
               "CylindricalHistogram": 3}       # entry point -> dimension (None: 2 or 3)
LD = np.dtype(np.longdouble).name               # "float128" on x86-64 linux
LD_WIDER = HAVE_F128 and LD == "float128" and np.finfo(np.longdouble).nmant > 52
MANT = {"float16": 11, "float32": 24, "float64": 53}        # significand bits
if LD_WIDER:
    MANT[LD] = int(np.finfo(np.longdouble).nmant) + 1
MACHINE_DT = set(history1.DTYPES)               # the dtypes of Model/DTypeMachine.lean (no int8, no unsigned types)
# HistogramND.fill_n with longdouble weights is refused by numpy.histogramdd ("Cannot cast array data from dtype('float128')
# to dtype('float64') according to the rule 'safe'") AFTER the content type was changed to float128: kept out of the stream
# (reported; refusal atomicity is C18's subject, and the dtype machine already replays it as `refused_after_coerce`).
ENABLE_NDN_LONGDOUBLE_FILL_N = False
# Integer weights are squared (`weights**2`, `weight**2`), and the sums of a batch are stored
# (`np.histogramdd(...).astype(weights.dtype)`), in the WEIGHTS' own type before they are added to the (wider) contents:
# an int64 N-d histogram filled with the int32 weights [2**30, 2**30] in one cell ends with the content -2**31, int16
# weight 300 leaves errors2 24464 in an int32 histogram (1-D: the sums are exact, the squares wrap as well).  The promoted
# content type could hold these values; the property does not speak about intermediates: reported, kept out of the stream.
ENABLE_NDN_SUMS_BEYOND_WEIGHT_TYPE = False


def ndn_lim(dt) -> int:
    """the largest content / squared error the generator lets a histogram of type `dt` reach: inside the type's range, and
    below 2**53 because HistogramND.fill_n sums weights with numpy.histogramdd, i.e. in float64 (sums beyond 2**53 are
    rounded there even for int64 weights: reported, not pinned by the property)"""
    dt = np.dtype(dt)
    if dt.kind in "iu":
        return min(int(np.iinfo(dt).max), 2**53 - 1)
    return 60000 if dt.name == "float16" else 2**53


def ndn_fits(dt, v: Fraction) -> bool:
    """is the rational `v` a value of type `dt` (normal range)?"""
    dt = np.dtype(dt)
    if dt.kind in "iu":
        info = np.iinfo(dt)
        return v.denominator == 1 and int(info.min) <= v <= int(info.max)
    if v == 0:
        return True
    n, d = abs(v.numerator), v.denominator
    if d & (d - 1):
        return False
    while n % 2 == 0:
        n //= 2
    if n.bit_length() > MANT.get(dt.name, 53):
        return False
    if dt.name == "float16":
        return Fraction(1, 2**14) <= abs(v) <= 65504
    return Fraction(1, 2**120) <= abs(v) <= 2**120


def ndn_num(v, dt, py: bool = False):
    """the number `v` (a rational string) as a python number (`py`) or as a numpy scalar of type `dt`, exactly"""
    from ..core import frac
    v, dt = Fraction(v), np.dtype(dt)
    if dt.kind in "iu":
        x = int(v) if py else dt.type(int(v))
    elif py:
        x = float(v)
    elif dt.name == LD and LD_WIDER:
        n, sh, x = abs(v.numerator), 0, np.longdouble(0)
        while n:
            x = x + np.longdouble(n & 0xFFFFFFFF) * np.longdouble(2) ** sh
            n >>= 32
            sh += 32
        x = x / np.longdouble(2) ** (v.denominator.bit_length() - 1)
        x = -x if v < 0 else x
    else:
        x = dt.type(float(v))
    if frac(x) != v:
        raise ValueError(f"{v} is not a {dt.name} number (malformed nd_narrow case)")
    return x


def ndn_operand_dtype(step) -> np.dtype:
    """the type physt sees in `np.asarray(operand).dtype` / `type(weight)`: a list of python ints / a python int is int64,
    python floats are float64"""
    return np.dtype(step["wdtype"])


class C13(Hist1Prop):
    ID = "C13"
    N_QUICK = 500
    N_THOROUGH = 15000
    RULE = ("random histories over all seven dtypes: h1() with dtype= / int or float weights, Histogram1D from arrays of each "
            "dtype (also values near the int16 / float16 limits), fill (python / numpy int / float weights), fill_n (int16..64, "
            "float32/64 weights), + - between histograms of every dtype pair, * / by python and numpy scalars, normalize, "
            "merge, explicit set_dtype / dtype= to every dtype (accepted or refused), copy, slice; and the complete 7x7 "
            "promote_types / can_cast tables of the model compared with numpy (exhaustive). stream nd_narrow (1/12 of the cases): "
            "N-d histograms (h2 / h3 / h, Histogram2D, HistogramND, PolarHistogram, CylindricalHistogram) created with a narrow "
            "dtype (int8/16/32, uint8/16/32, float16/32, float64 vs longdouble), then 1-3 of fill_n(weights = array / list), "
            "fill(weight = numpy / python scalar), += / + of a histogram, *= / * by a scalar whose type is mostly WIDER and of "
            "the same kind, with weights / sums / squared weights beyond the narrow range or not representable in the narrow "
            "float: dtype == frequencies.dtype == errors2.dtype, dtype = numpy promotion of (contents, operand), contents "
            "and errors2 equal to the exact sums; the types of these cases are also replayed by the dtype machine; a quarter "
            "of the dtype-machine histories start the same way (stream dtm_nd_narrow). non-trivial = the dtype of some "
            "histogram changes during the history; distinct = op-list hash")
    FIELDS = {"dtype", "keep"}
    EXTRA_TRUST = ["numpy.promote_types / numpy.can_cast are the reference for the model's two 7x7 tables (compared exhaustively each run)"]

    def gen_case(self, rng, k, tier):
        if k % 12 == 5:
            return self.gen_nd(rng)
        if k % 12 == 11:
            # narrow N-d content types meeting wider operands of the same kind in the in-place paths (1/12 of the cases)
            return self.gen_ndn(rng)
        if k % 5 == 2:
            # the dtype machine (Model/DTypeMachine.lean, Theorems/C13_Machine.lean): a random history on real 1-D / adaptive
            # / 2-D histograms; the machine must predict dtype, frequencies.dtype, errors2.dtype (and the type of the missed
            # counts) after every operation
            if k % 20 == 17:
                # a quarter of them: a narrow N-d histogram first meets wider weights / operands / factors (dtm_gen.history_ndn)
                return {"kind": "dtm", "seed": rng.getrandbits(31), "focus": "nd_narrow", "ops": [],
                        "tags": ["dtm", "stream:dtm_nd_narrow"]}
            return {"kind": "dtm", "seed": rng.getrandbits(31), "ops": [], "tags": ["dtm"]}
        ops, tags = history1.history(rng, nops=(2, 8), invalid_share=0.15, dtype_focus=True)
        if not HAVE_F128:
            for o in ops:
                if o.get("dtype") == "float128":
                    o["dtype"] = "float64"
        # The model keeps exact values; physt rounds a value that is inside the range of float16 / float32 but not one of
        # their numbers (2^31 - 1 -> 2^31 in float32, 2^15 - 1 -> 2^15 in float16: the on-limit stream of history1 stores
        # exactly these).  Whether the ROUNDED value still fits an integer type is not something the property pins (the same
        # false alarm as the rounded quotients of DESIGN 9.4; met by the thorough tier, default seed): after such a
        # conversion the history asks for float64 wherever it asked for an integer type.
        given = [Fraction(x) for o in ops if o["op"] == "of_arrays" for x in (o.get("freq") or []) + (o.get("err2") or [])
                 if isinstance(x, str) and x not in ("inf", "-inf", "nan")]
        rounding = False
        for o in ops:
            if o["op"] != "set_dtype":
                continue
            if o["dtype"] in ("float16", "float32") and any(not ndn_fits(o["dtype"], v) for v in given):
                rounding = True
            elif rounding and o["dtype"].startswith("int"):
                o["dtype"] = "float64"
                tags = tags + ["float_target_after_rounding"]
        return {"kind": "hist1", "ops": ops, "tags": tags, "tolerance": True}

    # ------------------------------------------------------------------ N-d: dtype of construction / arithmetic
    def gen_nd(self, rng):
        d = rng.choice([2, 2, 3])
        n = rng.choice([0, 1, 4, 9])
        rows = [[rng.randint(0, 7) / 2 for _ in range(d)] for _ in range(n)]
        wk = rng.choice(["none", "int32", "int64", "float32", "float64"])
        ws = None if wk == "none" else [rng.randint(0, 6) if wk.startswith("int") else rng.randint(0, 24) / 4 for _ in range(n)]
        dt = rng.choice([None, None, "int16", "int32", "int64", "float32", "float64"])
        ops = [rng.choice(["mul_int", "mul_float", "div", "normalize", "add_int", "add_float", "projection",
                           "fill_pyint", "fill_pyfloat", "fill_float32", "fill_float16", "fill_int32", "fill_n_int", "fill_n_float32",
                           "fill_n_float64", "accumulate", "accumulate", "set_freq_float", "set_freq_int", "set_err2_float",
                           "div_longdouble", "idiv_longdouble", "mul_float32"]) for _ in range(rng.randint(0, 3))]
        return {"kind": "nd_dtype", "d": d, "rows": rows, "wk": wk, "ws": ws, "dtype": dt, "steps": ops,
                "ops": [], "tags": ["nd", f"d:{d}", f"weights:{wk}", f"dtype:{dt}"]}

    def run_nd(self, case):
        from physt import h
        d, rows = case["d"], np.array(case["rows"], dtype=float).reshape(len(case["rows"]), case["d"])
        ws = None if case["ws"] is None else np.array(case["ws"], dtype=np.dtype(case["wk"]))
        edges = [np.array([0.0, 1.0, 2.0, 4.0])] * d
        kw = {} if case["dtype"] is None else {"dtype": np.dtype(case["dtype"])}
        log, out = [], {"steps": []}

        def snap(x):
            return {"dtype": str(x.dtype), "fdt": str(x.frequencies.dtype), "edt": str(x.errors2.dtype),
                    "freq": [float(v) for v in x.frequencies.ravel()], "err2": [float(v) for v in x.errors2.ravel()]}
        try:
            with warnings.catch_warnings():
                warnings.simplefilter("ignore")
                x = h(rows, edges, weights=ws, **kw)
        except Exception as e:
            return {"outs": {"refused": True}, "log": [f"{type(e).__name__}: {e}"[:160]]}
        out["init"] = snap(x)
        other_i = h(np.array([[0.5] * d]), edges)
        other_f = h(np.array([[0.5] * d]), edges, weights=np.array([1.5]))
        for st in case["steps"]:
            before = snap(x)
            try:
                with warnings.catch_warnings():
                    warnings.simplefilter("ignore")
                    if st == "mul_int":
                        x = x * 2
                    elif st == "mul_float":
                        x = x * 1.5
                    elif st == "div":
                        x = x / 2
                    elif st == "normalize":
                        x = x.normalize()
                    elif st in ("add_int", "add_float") and x.ndim != d:
                        continue          # after a projection the operand no longer has the dimension of `other`
                    elif st == "add_int":
                        x = x + other_i
                    elif st == "add_float":
                        x = x + other_f
                    elif st.startswith("fill"):
                        pt = [0.5] * x.ndim
                        if x.ndim == 1:
                            pt = 0.5
                        cell = (0,) * x.ndim
                        f0 = float(x.frequencies[cell])
                        if st.startswith("fill_n"):
                            wdt = {"fill_n_int": np.int64, "fill_n_float32": np.float32, "fill_n_float64": np.float64}[st]
                            wv = np.array([1 if st == "fill_n_int" else 0.5, 2 if st == "fill_n_int" else 0.25], dtype=wdt)
                            x.fill_n(np.array([pt, pt]) if x.ndim > 1 else np.array([pt, pt]), weights=wv)
                            added = float(wv.sum())
                        else:
                            wv = {"fill_pyint": 2, "fill_pyfloat": 0.5, "fill_float32": np.float32(0.5), "fill_float16": np.float16(0.5),
                                  "fill_int32": np.int32(3)}[st]
                            x.fill(pt, weight=wv)
                            added = float(wv)
                        out["steps"].append({"op": st, "ret": "ok", "before": before, "after": snap(x), "cell0": [f0, float(x.frequencies[cell]), added]})
                        continue
                    elif st == "accumulate" and x.ndim < 2:
                        continue
                    elif st == "accumulate":
                        x = x.accumulate(rng_axis(case, x))
                    elif st == "set_freq_float":
                        x.frequencies = x.frequencies / 8
                    elif st == "set_freq_int":
                        x.frequencies = np.ones(x.shape, dtype=np.int64)
                    elif st == "set_err2_float":
                        x.errors2 = x.errors2 * 0.25
                    elif st == "div_longdouble":
                        x = x / np.longdouble(2)
                    elif st == "idiv_longdouble":
                        x /= np.longdouble(2)
                    elif st == "mul_float32":
                        x = x * np.float32(1.5)
                    elif st == "projection" and x.ndim < 2:
                        continue          # a 1-D projection has no further projections
                    elif st == "projection":
                        x = x.projection(0)
                out["steps"].append({"op": st, "ret": "ok", "before": before, "after": snap(x), "other": str((other_i if st == "add_int" else other_f).dtype)})
            except Exception as e:
                log.append(f"{st}: {type(e).__name__}: {e}"[:160])
                out["steps"].append({"op": st, "ret": "REFUSED", "before": before, "after": snap(x)})
        return {"outs": out, "log": log}

    def oracle_nd(self, case, io):
        o, fails = io["outs"], []
        wfloat = case["wk"].startswith("float")
        want_int = case["dtype"] is not None and case["dtype"].startswith("int")
        if o.get("refused"):
            if not (want_int and wfloat):
                fails.append("refused_valid: N-d construction refused: " + "; ".join(io["log"][:1]))
            return fails
        if want_int and wfloat:
            return ["accepted_invalid: an integer N-d histogram was requested with float weights and accepted"]

        def consistent(sn, where):
            if not (sn["dtype"] == sn["fdt"] == sn["edt"]):
                fails.append(f"inconsistent: {where}: dtype {sn['dtype']} over {sn['fdt']} / {sn['edt']} arrays")
        ini = o["init"]
        consistent(ini, "after construction")
        exp = case["dtype"] or ("int64" if case["wk"] == "none" else case["wk"])
        if ini["dtype"] != exp:
            fails.append(f"construct_dtype: h(..., weights {case['wk']}, dtype={case['dtype']}) has dtype {ini['dtype']}, expected {exp}")
        wsum = len(case["rows"]) if case["ws"] is None else sum(case["ws"])
        for stp in o["steps"]:
            b, a = stp["before"], stp["after"]
            consistent(a, "after " + stp["op"])
            if stp["ret"] != "ok":
                if stp["op"] == "normalize" and sum(b["freq"]) == 0:
                    continue
                fails.append(f"refused_valid: N-d {stp['op']} refused: " + "; ".join(io["log"][:1]))
                continue
            kb, ka = np.dtype(b["dtype"]).kind, np.dtype(a["dtype"]).kind
            if stp["op"].startswith("fill"):
                f0, f1, added = stp["cell0"]
                if abs(f1 - (f0 + added)) > 1e-6 * max(1, abs(f1)):
                    fails.append(f"truncated: N-d {stp['op']} on {b['dtype']}: content {f0} + weight {added} became {f1} (dtype {a['dtype']})")
                if stp["op"] in ("fill_pyint", "fill_int32", "fill_n_int") and kb == "i" and ka != "i":
                    fails.append(f"not_integral: N-d {stp['op']} on {b['dtype']} gave {a['dtype']} (integer weights must keep an integer histogram)")
                continue
            if stp["op"] in ("mul_float", "div", "normalize", "add_float", "set_freq_float", "set_err2_float", "div_longdouble",
                             "idiv_longdouble", "mul_float32") and ka != "f":
                fails.append(f"truncated: N-d {stp['op']} on {b['dtype']} gave {a['dtype']} (must be float)")
            if stp["op"] in ("mul_int", "add_int", "projection", "accumulate", "set_freq_int") and kb == "i" and ka != "i":
                fails.append(f"not_integral: N-d {stp['op']} on {b['dtype']} gave {a['dtype']} (must stay integer)")
            if stp["op"] in ("add_int", "add_float") and a["dtype"] != str(np.promote_types(b["dtype"], stp["other"])):
                fails.append(f"promotion: {b['dtype']} + {stp['other']} gave {a['dtype']}, numpy promotes to {np.promote_types(b['dtype'], stp['other'])}")
            if stp["op"] == "mul_float" and any(abs(y - 1.5 * x) > 1e-6 * max(1, abs(y)) for x, y in zip(b["freq"], a["freq"])):
                fails.append(f"truncated: N-d * 1.5 turned {b['freq']} into {a['freq']}")
            if stp["op"] == "set_freq_float" and any(abs(y - x / 8) > 1e-6 * max(1, abs(y)) for x, y in zip(b["freq"], a["freq"])):
                fails.append(f"truncated: N-d `h.frequencies = h.frequencies / 8` turned {b['freq']} into {a['freq']}")
            if stp["op"] == "div" and any(abs(y - x / 2) > 1e-6 * max(1, abs(y)) for x, y in zip(b["freq"], a["freq"])):
                fails.append(f"truncated: N-d / 2 turned {b['freq']} into {a['freq']}")
        return fails[:6]

    # ------------------------------------------------------------------ N-d: narrow content types meeting wider operands
    # case: {"kind": "nd_narrow", "cls": entry point, "d": 2|3, "dtype": narrow content type, "init": rows counted at
    #        construction, "steps": [...]}; every number of a step is a rational string that is exactly a value of the step's
    #        operand type ("wdtype" = the numpy type physt sees: python ints are int64, python floats float64):
    #   {"op": "fill_n", "rows": [[x, ..]], "ws": [w, ..], "wdtype": W, "form": "array" | "list"}
    #   {"op": "fill", "row": [x, ..], "w": w, "wdtype": W, "form": "np" | "py"}
    #   {"op": "iadd", "cells": [[[i, ..], f, e2], ..], "wdtype": W (type of the other histogram), "inplace": bool}
    #   {"op": "imul", "k": k, "wdtype": W, "form": "np" | "py", "how": "i" | "l" | "r"}
    @staticmethod
    def ndn_cell(row):
        idx = []
        for x in row:
            if 0 <= x < 1:
                idx.append(0)
            elif 1 <= x <= 2:
                idx.append(1)
            else:
                return None
        return tuple(idx)

    def gen_ndn(self, rng):
        cls = rng.choice(sorted(NDN_CLASSES))
        d = NDN_CLASSES[cls] or rng.choice([2, 3])
        pool = ["int16"] * 3 + ["int32"] * 3 + ["int8", "uint8", "uint16", "uint32"] + ["float16"] * 2 + ["float32"] * 4
        if LD_WIDER:
            pool += ["float64"]
        dt = rng.choice(pool)

        def coord():
            return rng.choice([0.5, 0.5, 0.5, 1.5, 1.5, 1.0, 0.0, 7.0 if rng.random() < 0.25 else 1.5])

        def row():
            return [coord() for _ in range(d)]
        init = [row() for _ in range(rng.choice([0, 0, 1, 2, 3]))]
        if dt.startswith("uint") and cls not in ("h2", "h3", "h"):
            # an unsigned histogram refuses unweighted fill_n (numpy: "Cannot cast ufunc 'add' output from dtype('int64') to
            # dtype('uint8') with casting rule 'same_kind'"); unsigned types are outside the property's list: reported
            init = []
        sim = {}                        # cell -> [content, squared error], exact

        def add(cell, f, e):
            if cell is not None:
                c = sim.setdefault(cell, [Fraction(0), Fraction(0)])
                c[0] += f
                c[1] += e
        for r in init:
            add(self.ndn_cell(r), Fraction(1), Fraction(1))
        cur, steps, tags = np.dtype(dt), [], []
        for _ in range(rng.randint(1, 3)):
            op = rng.choice(["fill_n"] * 5 + ["fill"] * 2 + ["iadd"] * 2 + ["imul"] * 2)
            ints = ["int16", "int32", "int64", "uint16", "uint32"]
            floats = ["float32", "float64"] + ([LD] if LD_WIDER else [])
            same, other = (ints, floats[:2]) if cur.kind in "iu" else (floats, ints[:3])
            wider = [w for w in same if np.promote_types(cur, w) != cur and np.promote_types(cur, w).kind == cur.kind]
            r = rng.random()
            if r < 0.75 and wider:
                W, rel = rng.choice(wider), "wider_same_kind"
            elif r < 0.88 or not wider:
                W, rel = rng.choice([w for w in same + [cur.name] if np.promote_types(cur, w) == cur]), "not_wider"
            else:
                W, rel = rng.choice(other), "other_kind"
            W = np.dtype(W)
            if op == "fill_n" and W.name == LD and not ENABLE_NDN_LONGDOUBLE_FILL_N:
                op = rng.choice(["fill", "iadd", "imul"])
            P = np.promote_types(cur, W)
            lim = ndn_lim(P)
            nmax = int(np.iinfo(cur).max) if cur.kind in "iu" else 2**11     # what the narrow type could still hold
            top = max([Fraction(1)] + [max(c) for c in sim.values()])

            def weight(n=1):
                """a weight of type W (one of a batch of n); preferably one that (or whose square) is not a value of the
                current content type"""
                if W.kind in "iu":
                    # physt squares the weights, and numpy.histogramdd's sums of a batch are stored, in the weights' own type
                    own = lim if ENABLE_NDN_SUMS_BEYOND_WEIGHT_TYPE else min(int(np.iinfo(W).max), lim)
                    wsq = min(int(np.iinfo(W).max), max(1, math.isqrt(own // n)))
                    pick = rng.choice(["sq", "sq", "big", "small"])
                    if pick == "sq":
                        w = math.isqrt(nmax) + 1 + rng.randint(0, 40)
                    elif pick == "big":
                        w = nmax + 1 + rng.randint(0, 1000)
                    else:
                        w = rng.randint(1, 9)
                    return Fraction(max(1, min(w, wsq)))
                pc, pw = MANT.get(cur.name, 11), MANT[W.name]
                if rel == "wider_same_kind" and rng.random() < 0.85:
                    k = rng.randint(max(2, pc // 2 + 1), pw - 1)       # k >= pc: the weight itself is not a value of the
                    return Fraction(2**k + 1, 2**k)                     # narrow type; below: its square is not
                return Fraction(rng.choice(["1/2", "1/4", "3/2", "2", "3", "5/4"]))
            st = {"op": op, "wdtype": W.name}
            trial = []
            if op == "fill_n":
                rows = [row() for _ in range(rng.randint(1, 4))]
                ws = [weight(len(rows)) for _ in rows]
                st.update(rows=rows, ws=ws, form=rng.choice(["array", "list"]) if W.name in ("int64", "float64") else "array")
                trial = [(self.ndn_cell(r), w, w * w) for r, w in zip(rows, ws)]
            elif op == "fill":
                rw, w = row(), weight()
                st.update(row=rw, w=w, form=rng.choice(["np", "py"]) if W.name in ("int64", "float64") else "np")
                trial = [(self.ndn_cell(rw), w, w * w)]
            elif op == "iadd":
                cells = []
                for _ in range(rng.randint(1, 3)):
                    idx = tuple(rng.randint(0, 1) for _ in range(d))
                    if idx in [c[0] for c in cells]:
                        continue
                    if W.kind in "iu":
                        f = Fraction(min(int(np.iinfo(W).max), lim // 4, rng.choice([nmax + 1 + rng.randint(0, 99), nmax // 2 + 1, 3])))
                        e = rng.choice([f, Fraction(min(int(np.iinfo(W).max), lim // 4, int(f) * rng.randint(1, 3)))])
                    else:
                        f, e = weight(), weight()
                    cells.append((idx, f, e))
                st.update(cells=[[list(i), f, e] for i, f, e in cells], inplace=rng.random() < 0.7)
                trial = list(cells)
            else:
                if W.kind in "iu":
                    kmax = max(1, math.isqrt(lim // max(1, int(top))))
                    k = Fraction(max(1, min(kmax, int(np.iinfo(W).max), rng.choice([nmax // 2 + 1, math.isqrt(nmax) + 1, 2, 3]))))
                else:
                    k = weight()
                st.update(k=k, form=rng.choice(["np", "py"]) if W.name in ("int64", "float64") else "np", how=rng.choice(["i", "i", "l", "r"]))
            # the exact contents after the step must stay inside what the promoted type holds
            if op == "imul":
                k = st["k"]
                if any(c[0] * k > lim or c[1] * k * k > lim for c in sim.values()):
                    continue
                for c in sim.values():
                    c[0], c[1] = c[0] * k, c[1] * k * k
            else:
                after = {c: list(v) for c, v in sim.items()}
                for cell, f, e in trial:
                    if cell is not None:
                        v = after.setdefault(cell, [Fraction(0), Fraction(0)])
                        v[0] += f
                        v[1] += e
                if any(max(v) > lim for v in after.values()):
                    continue
                sim = after
            for key in ("ws", "w", "k"):
                if key in st:
                    st[key] = [str(x) for x in st[key]] if key == "ws" else str(st[key])
            if "cells" in st:
                st["cells"] = [[i, str(f), str(e)] for i, f, e in st["cells"]]
            steps.append(st)
            tags.append(f"ndn:{op}:{rel}")
            tags.append(f"ndn:{cur.name}<-{W.name}")
            if cur.kind in "iu" and P != cur and any(max(v) > nmax for v in sim.values()):
                tags.append("ndn:beyond_narrow_range")
            cur = P
        return {"kind": "nd_narrow", "cls": cls, "d": d, "dtype": dt, "init": init, "steps": steps, "ops": [],
                "tags": ["stream:nd_narrow", f"ndn:cls:{cls}", f"ndn:dtype:{dt}"] + tags}

    def ndn_make(self, case, dt, rows=None):
        """a histogram of the case's class on the fixed grid with content type `dt` (public constructors / facades only)"""
        import physt
        from physt.binnings import StaticBinning
        cls, d = case["cls"], case["d"]
        edges = [list(NDN_EDGES) for _ in range(d)]
        data = np.array(rows, dtype=float).reshape(len(rows), d) if rows else None
        if cls == "h2":
            return physt.h2(None if data is None else data[:, 0], None if data is None else data[:, 1], edges, dtype=dt), True
        if cls == "h3":
            return physt.h3(data, edges, dtype=dt), True
        if cls == "h":
            return (physt.h(data, edges, dtype=dt) if data is not None else physt.h(None, edges, dim=d, dtype=dt)), True
        return self.ndn_class(case)([StaticBinning(e) for e in edges], dtype=dt), False

    @staticmethod
    def ndn_class(case):
        from physt.histogram_nd import Histogram2D, HistogramND
        from physt import special_histograms as sp
        return {"Histogram2D": Histogram2D, "HistogramND": HistogramND, "PolarHistogram": sp.PolarHistogram,
                "CylindricalHistogram": sp.CylindricalHistogram}.get(case["cls"], Histogram2D if case["d"] == 2 else HistogramND)

    def ndn_other(self, case, W, cells):
        """the other operand of `+=`: same class and grid, contents / squared errors given per cell, content type W"""
        from physt.binnings import StaticBinning
        shape = (len(NDN_EDGES) - 1,) * case["d"]
        f, e = np.zeros(shape, dtype=W), np.zeros(shape, dtype=W)
        for idx, fv, ev in cells:
            f[tuple(idx)], e[tuple(idx)] = ndn_num(fv, W), ndn_num(ev, W)
        return self.ndn_class(case)([StaticBinning(list(NDN_EDGES)) for _ in range(case["d"])], frequencies=f, errors2=e, dtype=W)

    def run_ndn(self, case):
        from ..core import nrs
        from ..dtm_gen import st as state_of
        d = case["d"]
        kw = {"transformed": True} if case["cls"] in ("PolarHistogram", "CylindricalHistogram") else {}
        log, out = [], {"steps": [], "lines": [], "states": []}

        def snap(x):
            return {"dtype": str(x.dtype), "fdt": str(x.frequencies.dtype), "edt": str(x.errors2.dtype),
                    "shape": list(x.shape), "freq": [nrs(v) for v in x.frequencies.ravel()],
                    "err2": [nrs(v) for v in x.errors2.ravel()]}

        def line(text, x):
            out["lines"].append(text)
            out["states"].append(state_of(x))
        with warnings.catch_warnings():
            warnings.simplefilter("ignore")
            try:
                x, counted = self.ndn_make(case, np.dtype(case["dtype"]), case["init"])
                line(f"construct none {case['dtype']} 0", x)
                if not counted and case["init"]:
                    x.fill_n(np.array(case["init"], dtype=float), **kw)
                    line("fill_n none 0 1 0", x)
            except Exception as e:
                return {"outs": {"refused": True}, "log": [f"{type(e).__name__}: {e}"[:160]]}
            out["init"] = snap(x)
            for st in case["steps"]:
                before, s0 = snap(x), state_of(x)
                W = np.dtype(st["wdtype"])
                py = st.get("form") in ("py", "list")
                sc = ("py:int" if W.kind in "iu" else "py:float") if py else "np:" + W.name
                text = None
                try:
                    if st["op"] == "fill_n":
                        ws = [ndn_num(w, W, py) for w in st["ws"]]
                        text = f"fill_n {W.name} 0 1 0"
                        x.fill_n(np.array(st["rows"], dtype=float), weights=ws if py else np.array(ws, dtype=W), **kw)
                    elif st["op"] == "fill":
                        text = f"fill {sc} 0 0"
                        x.fill(list(st["row"]), weight=ndn_num(st["w"], W, py), **kw)
                    elif st["op"] == "iadd":
                        o = self.ndn_other(case, W, st["cells"])
                        text = f"add {state_of(o)} 0"
                        if st["inplace"]:
                            x += o
                        else:
                            x = x + o
                    else:
                        k = ndn_num(st["k"], W, py)
                        text = f"mul {sc}"
                        if st["how"] == "i":
                            x *= k
                        elif st["how"] == "l":
                            x = x * k
                        else:
                            x = k * x
                    line(text, x)
                    out["steps"].append({"op": st["op"], "ret": "ok", "before": before, "after": snap(x)})
                except Exception as e:
                    log.append(f"{st['op']}: {type(e).__name__}: {e}"[:200])
                    if state_of(x) != s0:
                        line(f"refused_after_coerce {W.name}", x)
                    out["steps"].append({"op": st["op"], "ret": "REFUSED", "before": before, "after": snap(x)})
        return {"outs": out, "log": log}

    def ndn_expected(self, case, st, before):
        """exact contents / squared errors after the step (ravel order), from the snapshot before it; None if a value before
        is not a finite number"""
        from .. import gennd
        if any(v in (None, "inf", "-inf") for v in before["freq"] + before["err2"]):
            return None
        d = case["d"]
        cells = gennd.unravel([len(NDN_EDGES) - 1] * d)
        pos = {c: i for i, c in enumerate(cells)}
        f = [Fraction(v) for v in before["freq"]]
        e = [Fraction(v) for v in before["err2"]]
        axes = [([(Fraction(a), Fraction(b)) for a, b in zip(NDN_EDGES, NDN_EDGES[1:])], True)] * d
        if st["op"] in ("fill_n", "fill"):
            rows = st["rows"] if st["op"] == "fill_n" else [st["row"]]
            ws = st["ws"] if st["op"] == "fill_n" else [st["w"]]
            for r, w in zip(rows, ws):
                c = gennd.cell_of(axes, [Fraction(v) for v in r])
                if c is not None:
                    f[pos[c]] += Fraction(w)
                    e[pos[c]] += Fraction(w) ** 2
        elif st["op"] == "iadd":
            for idx, fv, ev in st["cells"]:
                f[pos[tuple(idx)]] += Fraction(fv)
                e[pos[tuple(idx)]] += Fraction(ev)
        else:
            k = Fraction(st["k"])
            f, e = [v * k for v in f], [v * k * k for v in e]
        return f, e

    def oracle_ndn(self, case, io):
        o, fails = io["outs"], []
        if o.get("refused"):
            return [f"refused_valid: {case['cls']} on fixed edges with dtype={case['dtype']} and {len(case['init'])} unweighted rows "
                    "was refused: " + "; ".join(io["log"][:1])]

        def consistent(sn, where):
            if not (sn["dtype"] == sn["fdt"] == sn["edt"]):
                fails.append(f"inconsistent: {where}: dtype {sn['dtype']} over {sn['fdt']} / {sn['edt']} arrays")
        ini = o["init"]
        consistent(ini, "after construction")
        if ini["dtype"] != case["dtype"]:
            fails.append(f"construct_dtype: {case['cls']}(..., dtype={case['dtype']}) has dtype {ini['dtype']}")
        exp0 = self.ndn_expected(case, {"op": "fill_n", "rows": case["init"], "ws": ["1"] * len(case["init"])},
                                 {"freq": ["0"] * 2 ** case["d"], "err2": ["0"] * 2 ** case["d"]})
        if [Fraction(v) if v not in (None, "inf", "-inf") else v for v in ini["freq"]] != exp0[0]:
            fails.append(f"lossy: {case['cls']} with dtype={case['dtype']} counted {case['init']} as {ini['freq']}")
        for st, stp in zip(case["steps"], o["steps"]):
            b, a = stp["before"], stp["after"]
            old, W = np.dtype(b["dtype"]), ndn_operand_dtype(st)
            exp = np.promote_types(old, W)
            what = {"fill_n": f"fill_n(weights = {st.get('form')} of {W.name} {st.get('ws')})",
                    "fill": f"fill(weight = {'python' if st.get('form') == 'py' else 'numpy'} {W.name} {st.get('w')})",
                    "iadd": f"{'+=' if st.get('inplace') else '+'} a {W.name} histogram",
                    "imul": f"{'*=' if st.get('how') == 'i' else '*'} {'python' if st.get('form') == 'py' else 'numpy'} {W.name} {st.get('k')}"}[st["op"]]
            where = f"{case['cls']} ({case['d']}-d) of {old}: {what}"
            consistent(a, where)
            ev = self.ndn_expected(case, st, b)
            # the values are pinned when every exact result is a finite number inside the promoted type's range (and, for
            # integer weights, the squared weights and their sums inside the weights' own type, in which physt squares them
            # and stores the sums of the batch before adding them)
            pinned = ev is not None
            if pinned and exp.kind in "iu":
                pinned = all(v.denominator == 1 and 0 <= v <= ndn_lim(exp) for v in ev[0] + ev[1])
            elif pinned:
                pinned = all(0 <= v <= ndn_lim(exp) for v in ev[0] + ev[1])
            if pinned and W.kind in "iu" and st["op"] in ("fill_n", "fill") and not ENABLE_NDN_SUMS_BEYOND_WEIGHT_TYPE:
                # (one bound for all: the squares of a whole batch added up)
                sq = sum(Fraction(w) ** 2 for w in (st["ws"] if st["op"] == "fill_n" else [st["w"]]))
                pinned = sq <= int(np.iinfo(W).max)
            if stp["ret"] != "ok":
                if pinned and (ENABLE_NDN_LONGDOUBLE_FILL_N or not (st["op"] == "fill_n" and W.name == LD)):
                    fails.append(f"refused_valid: {where} was refused: " + "; ".join(io["log"][:1]))
                continue
            new = np.dtype(a["dtype"])
            if new != exp:
                fails.append(f"{st['op']}_dtype: {where} gives {new}, numpy promotion of ({old}, {W}) is {exp}")
            if not pinned:
                continue
            eps = Fraction(1, 2 ** (MANT.get(exp.name, 53) - 1))
            for name, got, want in (("contents", a["freq"], ev[0]), ("errors2", a["err2"], ev[1])):
                bad = None
                for i, (g, w) in enumerate(zip(got, want)):
                    if g in (None, "inf", "-inf"):
                        bad = i
                    elif ndn_fits(exp, w):
                        if Fraction(g) != w:
                            bad = i
                    elif abs(Fraction(g) - w) > 16 * eps * abs(w):
                        bad = i
                    if bad is not None:
                        break
                if bad is not None:
                    fails.append(f"lossy: {where}: {name} of cell {bad} went from {(b['freq'] if name == 'contents' else b['err2'])[bad]} "
                                 f"to {got[bad]}, the exact result is {want[bad]} (dtype {old} -> {new})")
            if len(fails) > 6:
                break
        return fails[:6]

    def exhaustive_cases(self, tier):
        # one pseudo-case: the table comparison (handled in run_impl / oracle)
        yield {"kind": "tables", "ops": [], "tags": ["tables"]}

    def ndn_signatures(self, case):
        return {f.split(":")[0] for f in self.oracle_ndn(case, self.run_ndn(case))}

    @staticmethod
    def ndn_smaller(case):
        """drop a step, a row of a batch (with its weight), a cell of the other operand, a row counted at construction; every
        step carries its own operand, so what is left is a well-formed case"""
        for k in range(len(case["steps"]) - 1, -1, -1):
            if len(case["steps"]) > 1:
                c = copy.deepcopy(case)
                del c["steps"][k]
                yield c
        for k, st in enumerate(case["steps"]):
            for key, other in (("rows", "ws"), ("cells", None)):
                if len(st.get(key, [])) > 1:
                    for j in range(len(st[key])):
                        c = copy.deepcopy(case)
                        del c["steps"][k][key][j]
                        if other:
                            del c["steps"][k][other][j]
                        yield c
        for j in range(len(case["init"])):
            c = copy.deepcopy(case)
            del c["init"][j]
            yield c
        if case["cls"] != "h2" and case["d"] == 2 and not case["init"]:
            c = copy.deepcopy(case)
            c["cls"] = "h2"
            yield c

    def shrink_candidates(self, case):
        if case["kind"] == "nd_narrow":
            # a smaller case must show every kind of failure the case shows (a wrong type AND a lost value, not only the former)
            want = self.ndn_signatures(case)
            for c in self.ndn_smaller(case):
                try:
                    if want <= self.ndn_signatures(c):
                        yield c
                except Exception:
                    continue
            return
        ops = case["ops"]
        for k in range(len(ops) - 1, 2, -1):
            c = copy.deepcopy(case)
            del c["ops"][k]
            yield c

    def neighbours(self, case):
        """after a broken correspondence of a dtype-machine replay / a narrow N-d case: fresh narrow N-d cases (the oracle
        pins types AND values there), derived from the case only"""
        if case["kind"] in ("dtm", "nd_narrow"):
            from ..core import Rng, case_hash
            for i in range(60):
                yield self.gen_ndn(Rng(f"{case_hash(case)}:{i}"))

    def run_impl(self, case):
        if case["kind"] == "tables":
            t = {"promote": {a: {b: str(np.promote_types(a, b)) for b in DT} for a in DT},
                 "can_cast": {a: {b: bool(np.can_cast(np.dtype(a), np.dtype(b))) for b in DT} for a in DT}}
            return {"outs": t, "log": []}
        if case["kind"] == "nd_dtype":
            return self.run_nd(case)
        if case["kind"] == "nd_narrow":
            return self.run_ndn(case)
        if case["kind"] == "dtm":
            from .. import dtm_gen
            hist = dtm_gen.run_history(case["seed"], case.get("focus"))
            return {"outs": {"lines": [l for l, st in hist if st is not None], "states": [st for l, st in hist if st is not None],
                             "notes": [l for l, st in hist if st is None]}, "log": [l for l, st in hist if st is None][:4]}
        from .c18 import PROP as C18P
        return C18P.run_impl(case)

    def diff(self, case, model_ok, io):
        if case["kind"] in ("dtm", "nd_narrow"):
            got, want = io["outs"]["states"], list(model_ok)
            d = []
            if len(got) != len(want):
                d.append(f"dtm: {len(want)} model states for {len(got)} lines")
            for i, (a, b) in enumerate(zip(want, got)):
                if a != b:
                    d.append(f"dtm line {i} `{io['outs']['lines'][i]}`: model [{a}] impl [{b}]")
            return d[:6]
        if case["kind"] == "tables":
            d = []
            for a in DT:
                for b in DT:
                    if model_ok["promote"][a][b] != io["outs"]["promote"][a][b]:
                        d.append(f"promote({a},{b}): model {model_ok['promote'][a][b]} numpy {io['outs']['promote'][a][b]}")
                    if model_ok["can_cast"][a][b] != io["outs"]["can_cast"][a][b]:
                        d.append(f"can_cast({a},{b}): model {model_ok['can_cast'][a][b]} numpy {io['outs']['can_cast'][a][b]}")
            return d
        return super().diff(case, model_ok, io)

    def oracle(self, case, io):
        if case["kind"] == "tables":
            return []
        if case["kind"] == "nd_dtype":
            return self.oracle_nd(case, io)
        if case["kind"] == "nd_narrow":
            return self.oracle_ndn(case, io)
        if case["kind"] == "dtm":
            fails = []
            for line, st in zip(io["outs"]["lines"], io["outs"]["states"]):
                t = st.split()
                if not (t[0] == t[1] == t[2]):
                    fails.append(f"inconsistent: after `{line}`: dtype {t[0]} over {t[1]} / {t[2]} arrays")
            return fails[:4]
        outs, ops = io["outs"], case["ops"]
        fails = []
        for k, op in enumerate(ops):
            regs = outs[k]["regs"]
            ret = outs[k]["ret"]
            before = outs[k - 1]["regs"] if k else []
            for i, r in enumerate(regs):
                if r is None:
                    continue
                for w in wellformed(r):
                    if w.startswith("dtype_mismatch") or w.startswith("negative_err2"):
                        fails.append(f"inconsistent: after step {k} ({op['op']}) register {i}: {w}")

            def B(i):
                return before[i] if i < len(before) else None

            def A(i):
                return regs[i] if i < len(regs) else None
            name = op["op"]
            if name == "construct" :
                wfloat = op.get("weights") is not None and (op.get("wkind") or "").startswith("float")
                if op.get("dtype") and op["dtype"].startswith("int") and wfloat:
                    if ret != "REFUSED":
                        fails.append("accepted_invalid: integer histogram requested with float weights was accepted")
                elif ret == "ok":
                    exp = op.get("dtype") or (op.get("wkind") if op.get("weights") is not None else "int64")
                    if A(op["out"])["dtype"] != exp:
                        fails.append(f"construct_dtype: h1(dtype={op.get('dtype')}, weights {op.get('wkind')}) has dtype {A(op['out'])['dtype']}, expected {exp}")
            if ret == "REFUSED" or name in ("construct", "empty", "of_arrays", "item", "invalid"):
                if name == "set_dtype" and ret == "REFUSED":
                    b = B(op["h"])
                    if b is not None:
                        finite = not any(x in ("inf", "-inf", None) for x in b["freq"] + b["err2"])
                        if finite and self.set_dtype_ok(b, op["dtype"]):
                            fails.append(f"refused_valid: set_dtype({op['dtype']}) refused although every value fits: freq {b['freq']} err2 {b['err2']}")
                        if A(op["h"]) != b:
                            fails.append("refused_changed: refused dtype change modified the histogram")
                continue
            h = op.get("h", op.get("a"))
            b = B(h)
            if b is None:
                continue
            tgt = op.get("out", h) if name in ("add", "sub", "mul", "div", "copy", "slice") or (name in ("normalize", "merge") and not op.get("inplace")) else h
            a = A(tgt)
            if a is None:
                continue
            old, new = np.dtype(b["dtype"]), np.dtype(a["dtype"])
            if name == "set_dtype":
                okd = self.set_dtype_ok(b, op["dtype"]) if not any(x in ("inf", "-inf", None) for x in b["freq"] + b["err2"]) else True
                if not okd:
                    fails.append(f"accepted_invalid: set_dtype({op['dtype']}) accepted although values do not fit: freq {b['freq']} err2 {b['err2']}")
                    continue
            if any(x in ("inf", "-inf", None) for r in (a, b) for x in r["freq"] + r["err2"]):
                continue
            if name == "fill":
                if op["v"] is None:
                    exp = old
                else:
                    exp = np.promote_types(old, np_kind(op["wk"]))
                if new != exp:
                    fails.append(f"fill_dtype: fill with a {op['wk']} weight turned {old} into {new}, expected {exp}")
            elif name == "fill_n":
                exp = old if op.get("ws") is None else np.promote_types(old, np.dtype(op["wkind"]))
                if new != exp:
                    fails.append(f"fill_n_dtype: fill_n with {op.get('wkind') if op.get('ws') is not None else 'no'} weights turned {old} into {new}, expected {exp}")
                # no wrap-around / truncation: contents grew by the batch (static bins only)
                nice = all(Fraction(x).denominator <= 1024 and abs(Fraction(x)) < 2**20 for x in b["freq"])
                if b["bins"] == a["bins"] and (new.kind == "i" or (new.kind == "f" and nice)):
                    pts = [(Fraction(v), Fraction(op["ws"][j]) if op.get("ws") is not None else Fraction(1))
                           for j, v in enumerate(op["vs"]) if v is not None]
                    nb = len(b["bins"])
                    for i, (l, r) in enumerate(b["bins"]):
                        l, r = Fraction(l), Fraction(r)
                        add = sum((w for v, w in pts if l <= v and (v < r or (i == nb - 1 and v == r))), Fraction(0))
                        if Fraction(a["freq"][i]) != Fraction(b["freq"][i]) + add and new.name not in ("float16", "float32"):
                            fails.append(f"lossy: bin {i} went from {b['freq'][i]} to {a['freq'][i]} after adding weight {add} ({old} -> {new})")
                            break
            elif name in ("iadd", "add", "isub", "sub"):
                o = B(op.get("o", op.get("b")))
                if o is not None:
                    exp = np.promote_types(old, np.dtype(o["dtype"]))
                    if new != exp:
                        fails.append(f"promotion: {old} {name} {o['dtype']} gives {new}, numpy promotion is {exp}")
            elif name in ("imul", "mul"):
                if np_kind(op["k"]).kind == "f" and new.kind != "f":
                    fails.append(f"mul_truncates: multiplying {old} by a float factor gives {new}")
                if new != np.promote_types(old, np_kind(op["k"])):
                    fails.append(f"mul_dtype: {old} * {op['k']} scalar gives {new}, expected {np.promote_types(old, np_kind(op['k']))}")
            elif name in ("idiv", "div", "normalize"):
                if new.kind != "f":
                    fails.append(f"div_truncates: {name} of {old} gives {new}")
            elif name == "set_dtype":
                okd = self.set_dtype_ok(b, op["dtype"])
                if not okd:
                    fails.append(f"accepted_invalid: set_dtype({op['dtype']}) accepted although values do not fit: freq {b['freq']} err2 {b['err2']}")
                elif new != np.dtype(op["dtype"]):
                    fails.append(f"set_dtype: dtype is {new} after set_dtype({op['dtype']})")
                else:
                    # every value that IS a number of the new type must come through unchanged (an accepted change to an
                    # integer type: all of them).  A value inside the range of a narrower float type but not representable
                    # there (int32 2147483647 -> float32, which has 24 significant bits) is rounded: the property demands
                    # "within its range" for those, nothing more.  [was: `new.itemsize >= old.itemsize`, which called the
                    # int32 -> float32 rounding of 2^31 - 1 a loss: false alarm of the on-limit stream, seed 5]
                    bv = [Fraction(x) for x in b["freq"] + b["err2"]]
                    av = [Fraction(x) for x in a["freq"] + a["err2"]]
                    if len(av) != len(bv) or any(x != y for x, y in zip(bv, av) if new.kind == "i" or ndn_fits(new, x)):
                        fails.append(f"lossy: values changed by set_dtype({op['dtype']}): {b['freq']} -> {a['freq']}")
            elif name in ("copy", "slice", "merge"):
                if new != old:
                    fails.append(f"{name}_dtype: {name} changed the dtype {old} -> {new}")
            if len(fails) > 6:
                break
        return fails[:6]

    @staticmethod
    def set_dtype_ok(snap, target: str) -> bool:
        old, new = np.dtype(snap["dtype"]), np.dtype(target)
        if old == new or np.can_cast(old, new):
            return True
        vals = [Fraction(x) for x in snap["freq"] + snap["err2"]]
        if new.kind == "i":
            if old.kind == "f" and any(v.denominator != 1 for v in vals):
                return False
            info = np.iinfo(new)
            return all(info.min <= v <= info.max for v in vals)
        info = np.finfo(new)
        return all(Fraction(float(info.min)) <= v <= Fraction(float(info.max)) for v in vals)

    def model_case(self, case, io):
        if case["kind"] == "nd_dtype":
            return None          # oracle only (the N-d dtype rules are those of the shared base class)
        if case["kind"] == "dtm":
            return {"kind": "dtm", "lines": io["outs"]["lines"]}
        if case["kind"] == "nd_narrow":
            # the types (reported / frequencies / errors2 / missed) are replayed by the dtype machine where it knows the types
            # (it has no int8 and no unsigned types); the values are the oracle's
            if io["outs"].get("refused") or not {case["dtype"], *(s["wdtype"] for s in case["steps"])} <= MACHINE_DT:
                return None
            return {"kind": "dtm", "lines": io["outs"]["lines"]}
        return case

    def tags(self, case, io):
        if case["kind"] == "tables":
            return ["tables"]
        if case["kind"] == "nd_dtype":
            return list(case["tags"]) + [f"step:{s}" for s in case["steps"]]
        if case["kind"] == "dtm":
            return list(case.get("tags") or ["dtm"]) + sorted({"dtm:" + l.split()[0] for l in io["outs"]["lines"]})
        if case["kind"] == "nd_narrow":
            return list(case["tags"]) + [f"ndn:ret:{s['ret']}" for s in io["outs"].get("steps", [])]
        return super().tags(case, io)

    def nontrivial(self, case, io):
        if case["kind"] == "tables":
            return True
        if case["kind"] == "nd_dtype":
            return len(case["rows"]) > 0
        if case["kind"] == "dtm":
            return len({st.split()[0] for st in io["outs"]["states"]}) > 1
        if case["kind"] == "nd_narrow":
            return any(s["before"]["dtype"] != s["after"]["dtype"] for s in io["outs"].get("steps", []))
        seen = {}
        for o in io["outs"]:
            for i, r in enumerate(o["regs"]):
                if r is not None:
                    seen.setdefault(i, set()).add(r["dtype"])
        return any(len(v) > 1 for v in seen.values())


PROP = C13()

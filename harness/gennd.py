"""Generator building blocks for ND cases."""
from __future__ import annotations

import itertools
from fractions import Fraction

from . import gen1
from .core import rs


def axis_binning(rng, maxbins=4, allow_fixed=True, allow_gaps=True):
    """(binning json, pairs, ire)"""
    r = rng.random()
    if allow_fixed and r < 0.3:
        w = rng.choice([1.0, 0.5, 0.25, 2.0, 0.1])
        tmin, cnt = rng.randint(-3, 3), rng.randint(1, maxbins)
        shift = rng.choice([0.0, 0.0, 0.5 * w])
        pairs = [[(tmin + i) * w + shift, (tmin + i + 1) * w + shift] for i in range(cnt)]
        return gen1.fixed_json(w, tmin, cnt, shift), pairs, False
    pairs, t = gen1.rising_bins(rng, allow_gaps=allow_gaps)
    pairs = pairs[:maxbins]
    ire = rng.random() < 0.75
    form = "static_obj"
    consecutive = gen1.is_consecutive_exact(pairs)
    if ire and rng.random() < 0.5:
        form = rng.choice(["pairs", "edges", "numpy_obj"] if consecutive else ["pairs"])
    elif consecutive and rng.random() < 0.3:
        form = "numpy_obj"
    return gen1.binning_json(pairs, ire=ire, form=form), pairs, ire


def rows_for(rng, axes_pairs, n, nan_share=0.08):
    cols = [gen1.values_for(rng, p, n, nan_share=nan_share / len(axes_pairs)) for p in axes_pairs]
    return [[c[i] for c in cols] for i in range(n)]


def enc_rows(rows):
    return [[None if v is None else rs(v) for v in r] for r in rows]


def cell_of(axes, row):
    """index tuple of the cell containing the row, or None; axes = [(pairs as Fractions, ire)]"""
    idx = []
    for (pairs, ire), x in zip(axes, row):
        hit = None
        n = len(pairs)
        for i, (l, r) in enumerate(pairs):
            if l <= x and (x < r or (i == n - 1 and ire and x == r)):
                hit = i
                break
        if hit is None:
            return None
        idx.append(hit)
    return tuple(idx)


def brute_cells(axes, rows, weights):
    """dict cell -> (sum w, sum w^2), total weight of the rows without NaN"""
    cells = {}
    tot = Fraction(0)
    for i, r in enumerate(rows):
        if any(v is None for v in r):
            continue
        w = Fraction(weights[i]) if weights is not None else Fraction(1)
        tot += w
        c = cell_of(axes, [Fraction(v) for v in r])
        if c is not None:
            a, b = cells.get(c, (Fraction(0), Fraction(0)))
            cells[c] = (a + w, b + w * w)
    return cells, tot


def unravel(shape):
    return list(itertools.product(*[range(s) for s in shape]))

"""The translator tie: definitions GENERATED from physt's current source, and the refinement theorems stated about them.

For each translated unit (`statistics`: physt/statistics.py -> lean/PhystGen/StatisticsSrc.lean; `config`: physt/config.py ->
lean/PhystGen/ConfigSrc.lean) a run

1. re-runs tools/py2lean.py on the source of the physt package Python imports NOW (/repo/src/physt, or the worktree on
   PYTHONPATH when a seeded change is tried);
2. compares the result with the committed generated file, which `lake build` compiled into the library together with the
   refinement theorems (PhystGen/C14_Source.lean, C06_Source.lean): identical text = those theorems are about the current source;
3. if the text differs, compiles the regenerated definitions in a scratch directory (lean/.lake/gen/<digest>/, keyed by content,
   never touching the lake tree) and re-checks the refinement theorem files against them (the whole `PhystGen` root is compiled
   there; Lean resolves a root in the first LEAN_PATH entry that has it, so scratch `PhystGen.*` is used with the library's `Physt.*`).  They may still check (a rewrite that means the same): then the tie holds.  If the translator
   refuses the source or a theorem file no longer checks, a proof obligation is broken; the runner then searches for a
   failing input and reports per DESIGN 4.4.
"""
from __future__ import annotations

import hashlib
import os
import subprocess
import sys
from pathlib import Path

from . import core

UNITS = {
    # unit -> (generated module file, theorem files that must check against it, in dependency order)
    "statistics": ("PhystGen/StatisticsSrc.lean", ["PhystGen/C14_Source.lean", "PhystGen/C06_Source.lean"]),
    "config": ("PhystGen/ConfigSrc.lean", ["PhystGen/C19_Source.lean"]),
    "version": ("PhystGen/VersionSrc.lean", ["PhystGen/C08_Source.lean"]),
}


def _lean_path() -> str:
    p = subprocess.run(["lake", "env", "printenv", "LEAN_PATH"], cwd=core.LEAN, capture_output=True, text=True)
    return p.stdout.strip()


def check(unit: str) -> dict:
    """returns {'ok', 'state', 'problems', 'source', 'digest'}"""
    gen_rel, thm_rel = UNITS[unit]
    import physt
    src_dir = os.path.dirname(physt.__file__)
    res = {"ok": True, "unit": unit, "source": src_dir, "problems": [], "state": None, "theorem_files": thm_rel}
    p = subprocess.run([sys.executable, str(core.VERIF / "tools" / "py2lean.py"), unit, "--src", src_dir],
                       capture_output=True, text=True)
    if p.returncode != 0:
        res["ok"] = False
        res["state"] = "source outside the translatable subset"
        res["problems"].append(f"py2lean refuses {src_dir}/{unit}.py: {p.stderr.strip()[-600:]}")
        return res
    text = p.stdout
    res["digest"] = hashlib.sha256(text.encode()).hexdigest()[:16]
    committed = (core.LEAN / gen_rel).read_text()
    if text == committed:
        res["state"] = "regenerated from the current source: identical to the compiled definitions"
        return res
    # the source says something else now: re-check the refinement theorems against the regenerated definitions
    scratch = core.LEAN / ".lake" / "gen" / res["digest"]
    done = scratch / "result.txt"
    if done.exists():
        out = done.read_text()
    else:
        (scratch / Path(gen_rel).parent).mkdir(parents=True, exist_ok=True)
        (scratch / gen_rel).write_text(text)
        lp = f"{scratch}:{_lean_path()}"
        env = dict(os.environ, LEAN_PATH=lp)
        out = ""
        steps = [gen_rel] + thm_rel
        for rel in steps:
            srcf = scratch / rel
            if rel != gen_rel:
                srcf.write_text((core.LEAN / rel).read_text())
            ol = scratch / Path(rel).with_suffix(".olean")
            ol.parent.mkdir(parents=True, exist_ok=True)
            q = subprocess.run(["lean", str(srcf), "-o", str(ol)], cwd=core.LEAN, env=env, capture_output=True, text=True)
            errs = [l for l in (q.stdout + q.stderr).splitlines() if "error" in l]
            if q.returncode != 0:
                out += f"FAILED {rel}: " + " | ".join(errs[:4])[:900] + "\n"
                break
            out += f"ok {rel}\n"
        done.write_text(out)
    if "FAILED" in out:
        res["ok"] = False
        res["state"] = "regenerated definitions differ and the refinement theorems no longer check against them"
        res["problems"].append(out.strip()[-1200:])
        res["diff"] = _diff(committed, text)
    else:
        res["state"] = "regenerated definitions differ from the compiled ones; the refinement theorems were re-checked against them and hold"
    return res


def _diff(a: str, b: str) -> list[str]:
    import difflib
    return [l for l in difflib.unified_diff(a.splitlines(), b.splitlines(), "compiled", "regenerated", lineterm="", n=0)][:40]

"""Run an ND op list against the real physt (public API only)."""
from __future__ import annotations

import warnings
from fractions import Fraction

import numpy as np

from .sharing import sharing as _sharing
from .impl1 import meta_repr

from .core import nrs, rs
from .impl1 import REFUSED, Store, arr, carried, fl, mk_binning, np_dtype, num_of

warnings.simplefilter("ignore")

from physt import h, h2, h3  # noqa: E402
from physt.histogram1d import Histogram1D  # noqa: E402
from physt.histogram_nd import Histogram2D, HistogramND  # noqa: E402


def _nb(binning):
    try:
        return [nrs(v) for v in np.asarray(binning.numpy_bins)]
    except Exception:
        return None


def snapn(x) -> dict:
    if isinstance(x, Histogram1D):
        bins = [np.asarray(x.bins).reshape(-1, 2)]
    else:
        bins = [np.asarray(b).reshape(-1, 2) for b in x.bins]
    f = np.asarray(x.frequencies)
    e = np.asarray(x.errors2)
    return {
        "bins": [[[rs(l), rs(r)] for l, r in b] for b in bins],
        "shape": [int(s) for s in f.shape],
        "freq": [nrs(v) for v in f.ravel()],
        "err2": [nrs(v) for v in e.ravel()],
        "missed": nrs(x.missed), "keep": bool(x.keep_missed), "dtype": str(x.dtype),
        "names": [str(n) for n in x.axis_names], "total": nrs(x.total), "ndim": int(x.ndim),
        "adaptive": bool(x.is_adaptive()),
        "_class": type(x).__name__, "_freq_dtype": str(f.dtype), "_err2_dtype": str(e.dtype),
        "_shape_ok": f.shape == e.shape == tuple(b.shape[0] for b in bins),
        "_numpy_bins": [_nb(b) for b in ([x.binning] if isinstance(x, Histogram1D) else x.binnings)],
        "_meta": meta_repr(x),
    }


def rows_arr(rows, d):
    a = np.array([[fl(v) for v in r] for r in rows], dtype=float)
    if a.size == 0:
        a = a.reshape(0, d)
    return a


def axref(a):
    return a


def narrow(a, vk):
    """the same numbers carried by a narrower numpy type (`vk`); every value must be exactly representable there"""
    a = np.asarray(a, dtype=float)
    b = a.astype(np.dtype(vk))
    if not np.array_equal(b.astype(float), a):      # a defect of the generator, not a refusal by the library (KeyError passes step)
        raise KeyError(f"harness: values not representable in {vk}: {a.tolist()}")
    return b


def point(v, op):
    """the point of a fill / find_bin op: a list of Python floats, or (op["vk"]) an array / a list of scalars of that type"""
    p = [fl(t) for t in v]
    if op.get("vk"):
        p = narrow(p, op["vk"])
        if op.get("vform") == "scalars":
            p = list(p)
    return p


def special_class(name):
    if name in (None, "Histogram2D"):
        return Histogram2D
    if name == "HistogramND":
        return HistogramND
    from physt import special_histograms
    return getattr(special_histograms, name)


def arr_exact(vals, dt):
    """impl1.arr, except that integer contents which are not doubles (beyond 2**53) go in as exact python integers
    (impl1.arr converts through float64 and refuses them); every list of doubles takes the old route"""
    if dt.kind in "iu":
        fr = [Fraction(v) for v in vals]
        if all(f.denominator == 1 for f in fr) and any(Fraction(float(f)) != f for f in fr):
            return np.array([int(f) for f in fr], dtype=dt)
    return arr(vals, dt)


def sub_index(j, ik=None):
    if isinstance(j, dict):
        return slice(j["s"][0], j["s"][1])
    return int(j) if not ik else np.dtype(ik).type(int(j))      # ik: integer indices as numpy integer scalars of that type


def step(s: Store, op: dict, log: list):
    name = op["op"]
    try:
        if name == "construct":
            axes = [mk_binning(b) for b in op["axes"]]
            d = len(axes)
            data = rows_arr(op["rows"], d)
            w = op.get("weights")
            if w is not None:
                w = arr(w, np.dtype(op.get("wkind") or "float64"))
            kw = {"dropna": op.get("dropna", True)}
            if op.get("names") is not None:
                kw["axis_names"] = op["names"]
            entry = op.get("entry", "h")
            if entry == "h2" and d == 2:
                kw.pop("axis_names", None)
                if op.get("names") is not None:
                    kw["axis_names"] = op["names"]
                r = h2(data[:, 0], data[:, 1], axes, weights=w, **kw)
            elif entry == "h3" and d == 3:
                r = h3(data, axes, weights=w, **kw)
            elif entry == "h3cols" and d == 3:
                r = h3([data[:, 0], data[:, 1], data[:, 2]], axes, weights=w, **kw)
            elif entry == "list":
                r = h(data.tolist() if len(data) else data, axes, weights=w, **kw)
            else:
                r = h(data, axes, weights=w, **kw)
            s.set(op["out"], r)
            return "ok"
        if name == "empty" and op.get("share"):
            # ONE binning object handed to the facade for all axes (`h(None, binning, dim=d)`): every axis must still get
            # bins of its own
            r = h(None, mk_binning(op["axes"][0]), dim=len(op["axes"]))
            s.set(op["out"], r)
            return "ok"
        if name == "empty":
            axes = [mk_binning(b) for b in op["axes"]]
            klass = Histogram2D if len(axes) == 2 else HistogramND
            if op.get("klass"):         # HistogramND for two axes / a transformed class (filled with transformed=True)
                klass = special_class(op["klass"])
            kw = {}
            if op.get("names") is not None:
                kw["axis_names"] = op["names"]
            r = klass(axes, keep_missed=op.get("keep", True), dtype=np_dtype(op.get("dtype")), **kw)
            s.set(op["out"], r)
            return "ok"
        if name == "of_arrays":
            axes = [mk_binning(b) for b in op["axes"]]
            shape = tuple(len(b["bins"]) if b["t"] == "static" else b["count"] for b in op["axes"])
            dt = np.dtype(op["dtype"])
            f = arr_exact(op["freq"], dt).reshape(shape)
            e = None if op.get("err2") is None else arr_exact(op["err2"], dt).reshape(shape)
            # "missed_kind": the missed weight as a number of that kind (a python int keeps integers beyond 2**53 exact)
            missed = num_of(op["missed"], op["missed_kind"]) if op.get("missed_kind") else fl(op.get("missed", "0"))
            klass = Histogram2D if len(axes) == 2 else HistogramND
            kw = {}
            if op.get("names") is not None:
                kw["axis_names"] = op["names"]
            r = klass(axes, f, errors2=e, missed=missed, keep_missed=op.get("keep", True), **kw)
            s.set(op["out"], r)
            return "ok"
        if name == "fill":
            x = s.get(op["h"])
            v = point(op["v"], op)
            w = num_of(op["w"], op["wk"])
            kw = {"transformed": True} if op.get("transformed") else {}
            ix = x.fill(v, **kw) if (op.get("default_w") and op["wk"] == "pyint" and w == 1) else x.fill(v, w, **kw)
            if any(t is None for t in op["v"]):
                return "nan" if ix is None else f"unexpected:{ix}"
            return None if ix is None else [int(i) for i in ix]
        if name == "find_bin":
            x = s.get(op["h"])
            ix = x.find_bin(point(op["v"], op), **({"transformed": True} if op.get("transformed") else {}))
            return None if ix is None else [int(i) for i in ix]
        if name == "fill_n":
            x = s.get(op["h"])
            data = rows_arr(op["rows"], x.ndim) if not op.get("raw_shape") else np.array([[fl(v) for v in r] for r in op["rows"]], dtype=float)
            ws = op.get("ws")
            if ws is not None:
                ws = arr(ws, np.dtype(op.get("wkind") or "float64"))
            if op.get("vk") or op.get("layout") or op.get("transformed"):
                # the rows carried by a float32 / float16 / narrow integer array (values exactly representable there),
                # optionally Fortran-ordered / a strided view / read-only
                if op.get("vk"):
                    data = narrow(data, op["vk"])
                lay = op.get("layout") or ""
                if "F" in lay:
                    data = np.asfortranarray(data)
                if "strided" in lay:
                    big = np.zeros((2 * data.shape[0], 2 * data.shape[1]), dtype=data.dtype)
                    big[::2, ::2] = data
                    data = big[::2, ::2]
                if "readonly" in lay:
                    data.setflags(write=False)
                x.fill_n(data, ws, **({"transformed": True} if op.get("transformed") else {}))
            elif op.get("columns"):
                x.fill_n(data.T, ws, columns=True)
            else:
                x.fill_n(data.tolist() if op.get("container") == "list" and len(data) else data, ws)
            return "ok"
        if name == "iadd":
            x = s.get(op["h"]); x += s.get(op["o"]); s.set(op["h"], x); return "ok"
        if name == "add":
            s.set(op["out"], s.get(op["a"]) + s.get(op["b"])); return "ok"
        if name == "isub":
            x = s.get(op["h"]); x -= s.get(op["o"]); s.set(op["h"], x); return "ok"
        if name == "sub":
            s.set(op["out"], s.get(op["a"]) - s.get(op["b"])); return "ok"
        if name == "imul":
            x = s.get(op["h"]); x *= num_of(op["c"], op["k"]); s.set(op["h"], x); return "ok"
        if name == "mul":
            c = num_of(op["c"], op["k"]); x = s.get(op["h"])
            s.set(op["out"], (c * x) if op.get("reflected") else (x * c)); return "ok"
        if name == "idiv":
            x = s.get(op["h"]); x /= num_of(op["c"], op.get("k", "pyfloat")); s.set(op["h"], x); return "ok"
        if name == "div":
            s.set(op["out"], s.get(op["h"]) / num_of(op["c"], op.get("k", "pyfloat"))); return "ok"
        if name == "normalize":
            x = s.get(op["h"])
            r = x.normalize(inplace=op.get("inplace", False), percent=op.get("percent", False))
            if not op.get("inplace", False):
                s.set(op["out"], r)
            return "ok"
        if name == "projection":
            s.set(op["out"], s.get(op["h"]).projection(*op["axes"])); return "ok"
        if name == "getitem":
            x = s.get(op["h"])
            idx = tuple(sub_index(j, op.get("ik")) for j in op["index"])
            r = x[idx[0]] if (len(idx) == 1 and op.get("bare")) else x[idx]
            if isinstance(r, tuple):
                return {"value": rs(r[1])}
            s.set(op["out"], r)
            return "ok"
        if name == "select":
            s.set(op["out"], s.get(op["h"]).select(op["axis"], sub_index(op["index"], op.get("ik")))); return "ok"
        if name == "T":
            s.set(op["out"], s.get(op["h"]).T); return "ok"
        if name == "accumulate":
            s.set(op["out"], s.get(op["h"]).accumulate(op["axis"])); return "ok"
        if name == "merge":
            x = s.get(op["h"])
            kw = {}
            if op.get("amount") is not None:     # "ak" / "mk": the numeric type carrying the amount / the threshold
                kw["amount"] = carried(op["amount"], op["ak"]) if op.get("ak") else op["amount"]
            if op.get("min_freq") is not None:
                kw["min_frequency"] = carried(op["min_freq"], op["mk"]) if op.get("mk") else fl(op["min_freq"])
            if op.get("axis") is not None:
                kw["axis"] = op["axis"]
            r = x.merge_bins(inplace=op.get("inplace", False), **kw)
            if not op.get("inplace", False):
                s.set(op["out"], r)
            return "ok"
        if name == "partial_normalize":
            x = s.get(op["h"])
            r = x.partial_normalize(op["axis"], inplace=op.get("inplace", False))
            if not op.get("inplace", False):
                s.set(op["out"], r)
            return "ok"
        if name == "set_dtype":
            x = s.get(op["h"])
            if op.get("via_property"):
                x.dtype = op["dtype"]
            else:
                x.set_dtype(op["dtype"])
            return "ok"
        if name == "set_meta":          # h.meta_data[key] = value (a JSON-like value, possibly a nested list / dict)
            import copy as _copy
            s.get(op["h"]).meta_data[op["key"]] = _copy.deepcopy(op["value"])
            return "ok"
        if name == "append_meta":       # an edit INSIDE a nested meta-data value: h.meta_data[key].append(x)
            md = s.get(op["h"]).meta_data
            if not isinstance(md.get(op["key"]), list):
                return "ok"             # this object does not carry the entry: nothing to edit
            md[op["key"]].append(op["value"])
            return "ok"
        if name == "set_adaptive":
            x = s.get(op["h"])
            if op.get("axis") is not None:      # adaptivity of one axis, through its (public) binning object
                x.binnings[op["axis"]].set_adaptive(bool(op.get("value", True)))
            else:
                x.set_adaptive(bool(op.get("value", True)))
            return "ok"
        if name == "copy":
            s.set(op["out"], s.get(op["h"]).copy(include_frequencies=op.get("with_freq", True))); return "ok"
        if name == "invalid":
            x = s.get(op["h"])
            what = op["what"]
            o = s.get(op["o"]) if "o" in op else None
            {"mul_hist": lambda: x * o, "div_hist": lambda: x / o, "rdiv": lambda: 2 / x,
             "mul_array": lambda: x * np.ones(x.shape), "add_array": lambda: x + np.ones(x.shape),
             "add_scalar": lambda: x + 4, "add_none": lambda: x + None,
             "merge_frac": lambda: x.merge_bins(2.5, inplace=True),
             "proj_none": lambda: x.projection(), "proj_dup": lambda: x.projection(0, 0),
             "proj_range": lambda: x.projection(x.ndim), "proj_name": lambda: x.projection("no_such_axis"),
             "proj_neg": lambda: x.projection(-1), "acc_range": lambda: x.accumulate(x.ndim),
             "fill_wrong_dim": lambda: x.fill([0.0] * (x.ndim + 1)),
             "fill_n_wrong_cols": lambda: x.fill_n(np.zeros((2, x.ndim + 1))),
             "too_many_indices": lambda: x[tuple([0] * (x.ndim + 1))],
             "neg_step": lambda: x[::-1],
             }[what]()
            log.append(f"invalid:{what} was ACCEPTED")
            return "accepted"
        raise KeyError(name)
    except KeyError:
        raise
    except Exception as e:
        log.append(f"{name}: {type(e).__name__}: {e}"[:200])
        return REFUSED


def run(case: dict):
    s = Store()
    outs, log = [], []
    for op in case["ops"]:
        ret = step(s, op, log)
        outs.append({"ret": ret, "regs": [None if x is None else snapn(x) for x in s.regs], "_sharing": _sharing(s.regs)})
    return outs, log


def run_unobserved(case: dict) -> dict:
    """the same history on fresh objects without reading anything between the operations (see impl1.run_unobserved)"""
    s = Store()
    log: list = []
    ret = None
    for op in case["ops"]:
        ret = step(s, op, log)
    return {"ret": ret, "regs": [None if x is None else snapn(x) for x in s.regs], "_sharing": _sharing(s.regs)}
